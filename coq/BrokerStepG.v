(* BrokerStep.v — every callback preserves Good; hence Good holds in every reachable state. *)
From Coq Require Import ZArith List Bool Arith Lia.
From HP Require Import Bytes Sha1 Wire ParamsOK Broker BrokerSpec BrokerLemmas BrokerInv.
Import ListNotations.

Section Step.
Variable bname : bytes.
Variable store : ident -> lookup.
Variable okrow : ident -> row -> Prop.
Hypothesis store_ok : forall i r, store i = LRow r -> okrow i r.
Variable async_store : bool.
Notation Good := (Good okrow async_store).
Notation Good0 := (Good0 okrow async_store).
Notation authenticate := (authenticate).
Notation on_auth := (on_auth store async_store).
Notation handle := (handle store async_store).
Notation pp := (pp store async_store).
Notation ppq := (ppq store async_store).
Notation step := (step bname store async_store).
Notation run := (run bname store async_store).

Lemma if_true_eq {A} (b : bool) (x y : A) : b = true -> (if b then x else y) = x.
Proof. intros ->. reflexivity. Qed.
Lemma if_false_eq {A} (b : bool) (x y : A) : b = false -> (if b then x else y) = y.
Proof. intros ->. reflexivity. Qed.

Lemma made_nonce s q : Good s -> made (conns s q) = true -> conn_nonce (alog s) q = Some (nonce (conns s q)).
Proof.
  intros ((_ & _ & [_ L2 _]) & _) Hm. specialize (L2 q). unfold nonce_link in L2.
  destruct (conn_nonce (alog s) q); [destruct L2 as (_ & ->); reflexivity|congruence].
Qed.

Lemma auth_set_good q i r dg s :
  Good s -> made (conns s q) = true -> dg = sha1 (nonce (conns s q) ++ r_secret r) ->
  (async_store = false -> okrow i r) ->
  Good (logA (AAuth q i r dg)
          (modc q (fun c => set_subchans (r_sub r) (set_pubchans (r_pub r) (set_ak (Some i) c))) s)).
Proof.
  intros G Hm Hd Hs. pose proof (made_nonce s q G Hm) as Hn.
  destruct G as ((I & R & L) & O).
  destruct I as [I1 I2 I3 I4 I5 I6 I7 I8]. destruct R as [R1 R2]. destruct L as [L1 L2 L3].
  split; [split; [|split]|].
  - constructor; cbn; intros; unfold upd in *;
      repeat match goal with
      | H : context [Nat.eqb ?a ?b] |- _ => destruct (Nat.eqb_spec a b); subst; cbn in H
      | |- context [Nat.eqb ?a ?b] => destruct (Nat.eqb_spec a b); subst; cbn
      end; cbn in *; auto.
  - constructor; cbn; intros q'; unfold upd; destruct (Nat.eqb_spec q' q); subst; cbn; auto.
  - constructor; cbn.
    + intros q'. unfold ak_link. cbn. unfold upd. rewrite (Nat.eqb_sym q q').
      destruct (Nat.eqb_spec q' q); subst; cbn; [auto|]. apply L1.
    + intros q'. specialize (L2 q'). unfold nonce_link in *. cbn. unfold upd.
      destruct (Nat.eqb_spec q' q); subst; cbn; exact L2.
    + split; [|exact L3]. exists (nonce (conns s q)). auto.
  - intros q'. cbn. unfold upd. destruct (Nat.eqb_spec q' q); subst; cbn; apply O.
Qed.

(* the subscription gauges are read by no invariant but the metrics one (BrokerMetrics.M) *)
Lemma set_g_subs_good v s : Good s -> Good (set_g_subs v s).
Proof.
  intros ((I & R & L) & O). destruct I as [I1 I2 I3 I4 I5 I6 I7 I8]. destruct R as [R1 R2]. destruct L as [L1 L2 L3].
  split; [split; [|split]|].
  - constructor; cbn; auto.
  - constructor; cbn; auto.
  - constructor; cbn; auto.
  - exact O.
Qed.
Lemma regauge_good q i s : Good s -> Good (regauge q i s).
Proof. apply set_g_subs_good. Qed.

Definition kgood (k : state -> res) : Prop := forall s, Good s -> Good (st (k s)).

Lemma authenticate_good k q i dg l s :
  kgood k -> Good s -> made (conns s q) = true -> (async_store = false -> store i = l) ->
  Good (st (authenticate k q i dg l s)).
Proof.
  intros Hk G Hm Hs. unfold Broker.authenticate. destruct l as [|r].
  - cbn. apply bad_good. exact G.
  - destruct (bytes_eqb (sha1 (nonce (conns s q) ++ r_secret r)) dg) eqn:E; [|cbn; apply bad_good; exact G].
    apply bytes_eqb_eq in E.
    match goal with |- context [k ?X] => assert (G1 : Good X) end.
    { apply auth_set_good; auto. apply regauge_good. exact G. }
    match goal with |- context [k ?X] => specialize (Hk X G1); destruct (k X) eqn:EK end; cbn in *.
    + destruct (pending _); [apply resume_r_good|]; exact Hk.
    + exact Hk.
    + exact Hk.
Qed.

Lemma on_auth_good k q i dg s :
  kgood k -> Good s -> Good (st (fst (on_auth k q i dg s))).
Proof.
  intros Hk G. unfold Broker.on_auth. destruct (copen (conns s q)) eqn:Ho; cbn; [|exact G].
  destruct (Bool.bool_dec async_store true) as [Ea|Ea]; [|apply Bool.not_true_is_false in Ea].
  - rewrite (if_true_eq _ _ _ Ea). cbn.
    apply pause_r_good. apply modc_inert_good; [exact G|]. intros c. reflexivity.
  - rewrite (if_false_eq _ _ _ Ea). cbn.
    apply authenticate_good; auto. destruct G as (([_ _ _ _ _ _ _ I8] & _) & _). apply I8. exact Ho.
Qed.

Lemma ak_some_link s q me : Good s -> ak (conns s q) = Some me ->
  exists r, last_auth (alog s) q = Some (me, r) /\ pubchans (conns s q) = r_pub r /\ subchans (conns s q) = r_sub r.
Proof.
  intros ((_ & _ & [L1 _ _]) & _) Hak. specialize (L1 q). unfold ak_link in L1.
  destruct (last_auth (alog s) q) as [[i r]|]; [|congruence].
  destruct L1 as (E & Hp & Hs). exists r. rewrite Hak in E. inversion E; subst. auto.
Qed.

Lemma on_publish_good q i c d s : Good s -> Good (st (on_publish q i c d s)).
Proof.
  intros G. unfold on_publish. destruct (ak (conns s q)) as [me|] eqn:Hak; [|cbn; apply bad_good; exact G].
  destruct (bytes_eqb i me) eqn:E1; cbn; [|apply bad_good; exact G].
  destruct (memc c (pubchans (conns s q))) eqn:E2; cbn; [|apply bad_good; exact G].
  destruct (copen (conns s q)) eqn:E3; cbn; [|exact G].
  apply bytes_eqb_eq in E1. subst i.
  destruct (ak_some_link s q me G Hak) as (r & Hla & Hp & _).
  apply memc_In in E2. rewrite Hp in E2.
  destruct (publish_good okrow async_store q c d s me r G Hla E2) as (s' & Es & Gs). rewrite Es. exact Gs.
Qed.

Lemma on_subscribe_good q c s : Good s -> ak (conns s q) <> None -> Good (st (on_subscribe q c s)).
Proof.
  intros G Hak. unfold on_subscribe.
  destruct (memc c (subchans (conns s q))) eqn:E2; cbn; [|apply bad_good; exact G].
  destruct (copen (conns s q)) eqn:E3; cbn; [|exact G].
  destruct (ak (conns s q)) as [me|] eqn:Ek; [|congruence].
  destruct (ak_some_link s q me G Ek) as (r & Hla & _ & Hs).
  apply memc_In in E2. rewrite Hs in E2.
  apply sub_good; [exact G|exact E3|]. exists me, r. auto.
Qed.

Lemma on_unsubscribe_good q c s : Good s -> ak (conns s q) <> None -> Good (st (on_unsubscribe q c s)).
Proof.
  intros G Hak. unfold on_unsubscribe. destruct (copen (conns s q)) eqn:E3; cbn; [|exact G].
  destruct (ak (conns s q)) as [me|] eqn:Ek; [|congruence].
  destruct (ak_some_link s q me G Ek) as (r & Hla & _).
  apply unsub_good; [exact G|]. rewrite Hla. discriminate.
Qed.

Lemma handle_good k q op body s : kgood k -> Good s -> Good (st (fst (handle k q op body s))).
Proof.
  intros Hk G. unfold Broker.handle.
  destruct (Z.eqb op 2).
  { destruct (readauth body) as [[i dg]|]; [apply on_auth_good; assumption|exact G]. }
  destruct (ak (conns s q)) as [me|] eqn:Hak; [|cbn; apply bad_good; exact G].
  assert (Hne : ak (conns s q) <> None) by congruence.
  destruct (Z.eqb op 3).
  { destruct (readpublish body) as [[[i c] d]|]; [apply on_publish_good; exact G|exact G]. }
  destruct (Z.eqb op 4).
  { destruct (readsubscribe body) as [[i c]|]; [apply on_subscribe_good; assumption|exact G]. }
  destruct (Z.eqb op 5).
  { destruct (readunsubscribe body) as [[i c]|]; [apply on_unsubscribe_good; assumption|exact G]. }
  exact G.
Qed.

Lemma pp_good fuel q : kgood (pp fuel q).
Proof.
  induction fuel as [|f IH]; intros s G; [exact G|].
  cbn [Broker.pp]. destruct (next limitP (buf (conns s q))) as [|c|op body rest].
  - exact G.
  - cbn. apply cl_good. exact G.
  - set (s1 := modc q (set_buf rest) s).
    assert (G1 : Good s1). { apply modc_inert_good; [exact G|]. intros c. reflexivity. }
    pose proof (handle_good (pp f q) q op body s1 IH G1) as H.
    destruct (handle (pp f q) q op body s1) as [r b]. cbn in H.
    destruct r as [s2|s2|s2]; [|exact H|exact H].
    destruct b; [exact H|]. apply IH. exact H.
Qed.

Lemma ppq_good q : kgood (ppq q).
Proof. intros s G. unfold Broker.ppq. apply pp_good. exact G. Qed.

Ltac upd_cases :=
  unfold upd in *;
  repeat match goal with
  | H : context [Nat.eqb ?a ?a] |- _ => rewrite Nat.eqb_refl in H
  | |- context [Nat.eqb ?a ?a] => rewrite Nat.eqb_refl
  | H : context [Nat.eqb ?a ?b] |- _ => destruct (Nat.eqb_spec a b); subst
  | |- context [Nat.eqb ?a ?b] => destruct (Nat.eqb_spec a b); subst
  end; cbn in *.

(* raising a flag that implies "closing" on a connection that is already closing *)
Lemma flags_good q f s :
  Good s -> closing (conns s q) = true ->
  (forall c, (made (f c), copen (f c), nonce (f c), ak (f c), pubchans (f c), subchans (f c), active (f c),
              closing (f c), out (f c)) =
             (made c, copen c, nonce c, ak c, pubchans c, subchans c, active c, closing c, out c)) ->
  Good (modc q f s).
Proof.
  intros G Hc Hf.
  assert (P : forall c, made (f c) = made c /\ copen (f c) = copen c /\ nonce (f c) = nonce c /\ ak (f c) = ak c /\
            pubchans (f c) = pubchans c /\ subchans (f c) = subchans c /\ active (f c) = active c /\
            closing (f c) = closing c /\ out (f c) = out c).
  { intros c. specialize (Hf c). injection Hf. intros. repeat split; assumption. }
  destruct G as ((I & R & L) & O).
  destruct I as [I1 I2 I3 I4 I5 I6 I7 I8]. destruct R as [R1 R2]. destruct L as [L1 L2 L3].
  split; [split; [|split]|].
  - constructor; cbn; intros; unfold upd in *.
    + destruct (Nat.eqb_spec q0 q); subst; [|apply I1; assumption].
      destruct (P (conns s q)) as (_ & -> & _ & _ & _ & _ & -> & _). apply I1; assumption.
    + destruct (Nat.eqb_spec q0 q); subst; [|apply I2; assumption].
      destruct (P (conns s q)) as (_ & _ & _ & _ & _ & _ & E & _). rewrite E in H. apply I2; assumption.
    + apply I3.
    + destruct (Nat.eqb_spec q0 q); subst; [|apply I4].
      destruct (P (conns s q)) as (_ & _ & _ & _ & _ & _ & -> & _). apply I4.
    + destruct (Nat.eqb_spec q0 q); subst; [|apply I5; assumption].
      destruct (P (conns s q)) as (_ & E & _ & _ & _ & _ & -> & _). rewrite E in H. apply I5; assumption.
    + destruct (Nat.eqb_spec q0 q); subst; [|apply I6; assumption].
      destruct (P (conns s q)) as (_ & _ & _ & _ & _ & _ & _ & -> & _). exact Hc.
    + destruct (Nat.eqb_spec q0 q); subst; [|apply I7; assumption].
      destruct (P (conns s q)) as (_ & _ & _ & _ & _ & _ & _ & -> & _). exact Hc.
    + destruct (Nat.eqb_spec q0 q); subst; [|apply I8; assumption].
      destruct (P (conns s q)) as (-> & E & _). rewrite E in H. apply I8; assumption.
  - constructor; cbn; intros q'; unfold upd; destruct (Nat.eqb_spec q' q); subst; auto.
    + destruct (P (conns s q)) as (_ & _ & _ & _ & _ & _ & -> & _). apply R1.
    + destruct (P (conns s q)) as (_ & _ & _ & _ & _ & _ & _ & -> & _). apply R2.
  - constructor; cbn; [| |exact L3].
    + intros q'. specialize (L1 q'). unfold ak_link in *. unfold upd. destruct (Nat.eqb_spec q' q); subst; [|exact L1].
      destruct (P (conns s q)) as (_ & _ & _ & -> & -> & -> & _). exact L1.
    + intros q'. specialize (L2 q'). unfold nonce_link in *. unfold upd. destruct (Nat.eqb_spec q' q); subst; [|exact L2].
      destruct (P (conns s q)) as (-> & _ & -> & _). exact L2.
  - intros q'. cbn. unfold upd. destruct (Nat.eqb_spec q' q); subst; [|apply O].
    destruct (P (conns s q)) as (_ & _ & _ & _ & _ & _ & _ & _ & ->). apply O.
Qed.

(* close first, then raise the flag: the same state as abort *)
Lemma abort_alt q s : 
  let s' := modc q (set_aborted true) (cl q s) in
  alog (abort q s) = alog s' /\ subs (abort q s) = subs s' /\ (forall q', conns (abort q s) q' = conns s' q').
Proof.
  unfold abort, cl. cbn. unfold upd. rewrite Nat.eqb_refl. cbn.
  destruct (closing (conns s q)) eqn:Ec; cbn; unfold upd; rewrite ?Nat.eqb_refl; cbn; rewrite ?Ec.
  - repeat split. 
  - repeat split. intros q'. destruct (Nat.eqb_spec q' q); subst; reflexivity.
Qed.

Lemma good_ext s s' :
  Good s -> alog s' = alog s -> subs s' = subs s -> (forall q, conns s' q = conns s q) -> Good s'.
Proof.
  intros G Ha Hs Hc. apply (good_inert okrow async_store s); auto. intros q. rewrite Hc. reflexivity.
Qed.

Lemma cl_closing q s : closing (conns (cl q s) q) = true.
Proof. unfold cl. destruct (closing (conns s q)) eqn:E; [exact E|]. cbn. unfold upd. rewrite Nat.eqb_refl. reflexivity. Qed.

Lemma abort_good q s : Good s -> Good (abort q s).
Proof.
  intros G. destruct (abort_alt q s) as (Ha & Hs & Hc).
  eapply good_ext; [|exact Ha|exact Hs|exact Hc].
  apply flags_good; [apply cl_good; exact G|apply cl_closing|]. intros c. reflexivity.
Qed.

(* ---- the callbacks -------------------------------------------------------------------------------------- *)
Lemma good_state0 : Good state0.
Proof.
  split; [split; [|split]|].
  - constructor; cbn; intros; try tauto; try discriminate; try constructor.
  - constructor; cbn; reflexivity.
  - constructor; cbn; unfold ak_link, nonce_link; cbn; auto.
  - intros q. reflexivity.
Qed.

Lemma unmade_facts s q : Good s -> made (conns s q) = false ->
  copen (conns s q) = false /\ (forall c, ~ In q (subs s c)) /\ conn_nonce (alog s) q = None.
Proof.
  intros ((I & _ & [_ L2 _]) & _) Hm. destruct I as [I1 _ _ _ _ _ _ I8].
  assert (Ho : copen (conns s q) = false).
  { destruct (copen (conns s q)) eqn:E; [rewrite (I8 _ E) in Hm; discriminate|reflexivity]. }
  split; [exact Ho|]. split.
  - intros c H. destruct (I1 _ _ H) as [E _]. congruence.
  - specialize (L2 q). unfold nonce_link in L2. destruct (conn_nonce (alog s) q); [destruct L2; congruence|reflexivity].
Qed.

Lemma do_connect_good q n s : Good s -> Good (do_connect bname q n s).
Proof.
  intros G. unfold do_connect. destruct (made (conns s q)) eqn:Hm; [exact G|].
  destruct (unmade_facts s q G Hm) as (Ho & Hns & Hcn).
  apply wr_good; [|exact I].
  destruct G as ((I & R & L) & O).
  destruct I as [I1 I2 I3 I4 I5 I6 I7 I8]. destruct R as [R1 R2]. destruct L as [L1 L2 L3].
  split; [split; [|split]|].
  - constructor; cbn; intros; unfold upd in *.
    + destruct (Nat.eqb_spec q0 q); subst; [exfalso; eapply Hns; eassumption|apply I1; assumption].
    + destruct (Nat.eqb_spec q0 q); subst; [cbn in H; tauto|apply I2; assumption].
    + apply I3.
    + destruct (Nat.eqb_spec q0 q); subst; [cbn; constructor|apply I4].
    + destruct (Nat.eqb_spec q0 q); subst; [reflexivity|apply I5; assumption].
    + destruct (Nat.eqb_spec q0 q); subst; [cbn in H; discriminate|apply I6; assumption].
    + destruct (Nat.eqb_spec q0 q); subst; [cbn in H; discriminate|apply I7; assumption].
    + destruct (Nat.eqb_spec q0 q); subst; [reflexivity|apply I8; assumption].
  - constructor; cbn; intros q'; unfold upd; destruct (Nat.eqb_spec q' q); subst; cbn; auto.
  - constructor; cbn.
    + intros q'. specialize (L1 q'). unfold ak_link in *. cbn. unfold upd. rewrite (Nat.eqb_sym q q').
      destruct (Nat.eqb_spec q' q); subst; cbn; [reflexivity|exact L1].
    + intros q'. specialize (L2 q'). unfold nonce_link in *. cbn. unfold upd. rewrite (Nat.eqb_sym q q').
      destruct (Nat.eqb_spec q' q); subst; cbn; [auto|exact L2].
    + split; [exact Hcn|exact L3].
  - intros q'. cbn. unfold upd. destruct (Nat.eqb_spec q' q); subst; cbn; [reflexivity|apply O].
Qed.

Lemma do_data_good q ch s : Good s -> Good (do_data store async_store q ch s).
Proof.
  intros G. unfold do_data. destruct (can_read (conns s q)); [|exact G].
  match goal with |- context [ppq q ?X] => assert (G1 : Good X) end.
  { apply modc_inert_good; [exact G|]. intros c. reflexivity. }
  match goal with |- context [ppq q ?X] => pose proof (ppq_good q X G1) as H; destruct (ppq q X) end; cbn in H.
  - exact H.
  - apply abort_good. exact H.
  - exact H.
Qed.

Lemma do_peer_closed_good q s : Good s -> Good (do_peer_closed q s).
Proof. intros G. unfold do_peer_closed. destruct (can_read _); [apply cl_good|]; exact G. Qed.

Lemma do_lost_good q s : Good s -> Good (do_lost q s).
Proof.
  intros G. unfold do_lost. destruct (made (conns s q) && negb (lost (conns s q))); [|exact G].
  pose proof (cl_good okrow async_store q s G) as G1. pose proof (cl_closing q s) as Hc.
  set (s1 := cl q s) in *.
  destruct (copen (conns s1 q)) eqn:Ho.
  - destruct G1 as (G10 & O1). destruct (lostp_good0 okrow async_store q s1 G10 Ho) as (G2 & F & _ & _ & Fc & _).
    apply flags_good.
    + split; [exact G2|]. intros q'. destruct (F q') as (-> & ->). apply O1.
    + rewrite Fc. exact Hc.
    + intros c. reflexivity.
  - apply flags_good; [exact G1|exact Hc|]. intros c. reflexivity.
Qed.

Lemma do_lookup_done_good q r s : Good s -> Good (do_lookup_done store async_store q r s).
Proof.
  intros G. unfold do_lookup_done.
  destruct (Bool.bool_dec async_store true) as [Ea|Ea].
  2:{ apply Bool.not_true_is_false in Ea.
      replace (negb (async_store && made (conns s q))) with true by (rewrite Ea; reflexivity). exact G. }
  destruct (made (conns s q)) eqn:Hm.
  2:{ rewrite andb_false_r. exact G. }
  replace (negb (async_store && true)) with false by (rewrite Ea; reflexivity).
  destruct (pending (conns s q)) as [|[i dg] rest]; [exact G|].
  set (s1 := modc q (set_pending rest) s).
  assert (G1 : Good s1). { apply modc_inert_good; [exact G|]. intros c. reflexivity. }
  destruct r as [l|].
  - assert (GA : Good (st (authenticate (ppq q) q i dg l s1))).
    { apply authenticate_good; [apply ppq_good|exact G1| |intros E; congruence].
      subst s1. cbn. unfold upd. rewrite Nat.eqb_refl. cbn. exact Hm. }
    destruct (authenticate (ppq q) q i dg l s1); cbn in *; [exact GA|apply cl_good; exact GA|exact GA].
  - apply bad_good. exact G1.
Qed.

Lemma do_pausew_good q s : Good s -> Good (do_pausew q s).
Proof.
  intros G. unfold do_pausew. destruct (_ && _); [|exact G].
  apply modc_inert_good; [exact G|]. intros c. reflexivity.
Qed.
Lemma do_resumew_good q s : Good s -> Good (do_resumew q s).
Proof.
  intros G. unfold do_resumew. destruct (_ && _); [|exact G].
  apply modc_inert_good; [exact G|]. intros c. reflexivity.
Qed.
Lemma tick1_good s q : Good s -> Good (tick1 s q).
Proof.
  intros G. unfold tick1. destruct (timer (conns s q)) as [n|]; [|exact G].
  destruct (n <=? 1)%nat.
  - apply bad_good. apply modc_inert_good; [exact G|]. intros c. reflexivity.
  - apply modc_inert_good; [exact G|]. intros c. reflexivity.
Qed.
Lemma do_tick_good s : Good s -> Good (do_tick s).
Proof.
  unfold do_tick. generalize (rev (ids s)). intros l. revert s.
  induction l as [|q l IH]; intros s G; cbn; [exact G|]. apply IH. apply tick1_good. exact G.
Qed.

Theorem step_good s e : Good s -> Good (step s e).
Proof.
  intros G. destruct e; cbn [Broker.step].
  - apply do_connect_good; exact G.
  - apply do_data_good; exact G.
  - apply do_peer_closed_good; exact G.
  - apply do_lost_good; exact G.
  - apply do_lookup_done_good; exact G.
  - apply do_pausew_good; exact G.
  - apply do_resumew_good; exact G.
  - apply do_tick_good; exact G.
Qed.

Lemma run_from_good h : forall s, Good s -> Good (fold_left step h s).
Proof. induction h as [|e h IH]; intros s G; cbn; [exact G|]. apply IH. apply step_good. exact G. Qed.

(* every reachable state *)
Theorem run_good h : Good (run h).
Proof. unfold Broker.run. apply run_from_good. apply good_state0. Qed.

End Step.
