(* PyStore.v — the layer harness/pytrans4.py translates hpfeeds/broker/auth/json.py into (Authenticator.load and
   Authenticator.get_authkey; definitions only; the equalities with Stores.v are in StoreGenEq.v).

   State = self.db (Stores.table: the dict json.load returned, keys in insertion order).  A Python value is a parsed JSON
   value (Stores.json: JAtom = any scalar, JArr = list, JObj = dict); `None` from dict.get is [option json].
   A method either returns (value + state) or raises.  Statement lists are [SM (option R)]: [None] = fell off the end,
   [Some r] = `return r`.  json.load / open are not modelled: `try: with open(..) as fp: db = json.load(fp) except
   Exception: ...; return` is a match on the argument [parsed] ([None] = it raised).  logger.* calls are skipped.
   A primitive applied to a value of the wrong kind raises - never a normal-looking value. *)
From Coq Require Import List Bool String.
From Coq Require Import Strings.Byte.
From HP Require Import Bytes Stores.
Import ListNotations.

Inductive sres (A : Type) := SOk (a : A) (db : table) | SRaise (db : table).
Arguments SOk {A} a db.
Arguments SRaise {A} db.
Definition SM (A : Type) := table -> sres A.
Definition retS {A} (a : A) : SM A := fun db => SOk a db.
Definition raiseS {A} : SM A := fun db => SRaise db.
Definition bindS {A B} (m : SM A) (f : A -> SM B) : SM B :=
  fun db => match m db with SOk a db' => f a db' | SRaise db' => SRaise db' end.
Definition seqS {R} (m k : SM (option R)) : SM (option R) :=
  bindS m (fun c => match c with None => k | Some r => retS (Some r) end).
Definition fallS {R} : SM (option R) := retS None.
Definition returnS {R} (r : R) : SM (option R) := retS (Some r).
Definition ifS {R} (c : SM bool) (t e : SM (option R)) : SM (option R) := bindS c (fun b => if b then t else e).
Definition pureS (b : bool) : SM bool := retS b.
Definition liftS {A} (o : option A) : SM A := match o with Some a => retS a | None => raiseS end.
Fixpoint forS {X R} (l : list X) (body : X -> SM (option R)) : SM (option R) :=
  match l with [] => fallS | x :: t => seqS (body x) (forS t body) end.
(* a whole method: what it returns; falling off the end returns `dflt` (Python's None) *)
Definition fnS {R} (dflt : R) (m : SM (option R)) : SM R :=
  bindS m (fun c => retS (match c with Some r => r | None => dflt end)).
(* self.db = v *)
Definition set_db {R} (v : json) : SM (option R) :=
  fun _ => match v with JObj es => SOk None es | _ => SRaise [] end.
(* self.db *)
Definition get_db : SM table := fun db => SOk db db.

(* ---- values ---------------------------------------------------------------------------------------- *)
Definition is_dict (v : json) : bool := match v with JObj _ => true | _ => false end.
Definition is_list (v : json) : bool := match v with JArr _ => true | _ => false end.
(* k in v, for a dict v *)
Definition py_in (k : bytes) (v : json) : option bool := match v with JObj f => Some (jhas k f) | _ => None end.
(* v[k], for a dict v: KeyError when absent *)
Definition py_subscript (v : json) (k : bytes) : option json := match v with JObj f => jassoc k f | _ => None end.
(* v.items(), for a dict v *)
Definition py_items (v : json) : option (list (bytes * json)) := match v with JObj es => Some es | _ => None end.
(* truthiness of what dict.get(k, None) returned *)
Definition py_truthy (o : option json) : bool :=
  match o with
  | None => false
  | Some (JObj []) | Some (JArr []) => false
  | Some _ => true        (* scalars: the harness's tables hold only dict entries (load() accepts nothing else) *)
  end.
(* dict(secret=.., ident=.., pubchans=.., subchans=.., owner=..): the answer, in the model's representation *)
Definition mk_authkey (secret pub sub owner : json) : cred :=
  mkcred (jatom (Some secret)) (jatom (Some owner)) (jlist (Some pub)) (jlist (Some sub)).

(* ---- memory.py / multi.py: answers are the model's [option cred] ([None] = None or any falsy entry) ---------- *)
Definition mem_dict_get (creds : list (bytes * option cred)) (i : bytes) : option cred :=     (* self.creds.get(i, None) *)
  match assocb i creds with Some v => v | None => None end.
Definition cred_truthy (o : option cred) : bool := match o with Some _ => true | None => false end.
Definition cred_copy (o : option cred) : option cred := o.                               (* dict(x) *)
Definition cred_set_ident (o : option cred) (i : bytes) : option cred := o.                 (* x['ident'] = i *)
(* for m in stack: r = ..; if r: return r   ...  return None *)
Fixpoint for_first {X R} (l : list X) (body : X -> option R) : option R :=
  match l with [] => None | x :: t => match body x with Some r => Some r | None => for_first t body end end.

(* ---- env.py: os.environ is a list of (name, value) pairs, str.upper a parameter --------------------------------- *)
Definition env_dict_get (env : list (bytes * bytes)) (k : bytes) (d : option bytes) : option bytes :=   (* os.environ.get(k, d) *)
  match assocb k env with Some v => Some v | None => d end.
Fixpoint py_join (sep : bytes) (l : list bytes) : bytes :=                                   (* sep.join(l) *)
  match l with [] => [] | [x] => x | x :: t => x ++ sep ++ py_join sep t end.
Definition opt_str (o : option bytes) : bytes := match o with Some v => v | None => [] end.
Definition str_truthy (s : bytes) : bool := negb (bytes_eqb s []).
Definition optstr_truthy (o : option bytes) : bool := match o with Some s => str_truthy s | None => false end.
Definition py_split_comma (s : bytes) : list bytes := split_commas s.                     (* s.split(',') *)

(* ---- sqlite.py: "select * from authkeys where ident=?" with the parameter bound, then fetchone(): the first row, in rowid
   order, whose ident column equals the parameter *)
Fixpoint sql_select_where_ident_eq (rows : list sqlrow) (i : bytes) : option sqlrow :=
  match rows with [] => None | r :: t => if bytes_eqb (s_ident r) i then Some r else sql_select_where_ident_eq t i end.
