(* BrokerWellBehaved.v — C10, the other half: a connection whose OWN requests are all permitted is never disconnected.

   BrokerBlame.v shows that only a connection's own events can close it.  Here: if what a connection sends is
   well-formed and permitted at the time it is processed - OP_AUTH with the digest for its own nonce and the stored
   secret, OP_PUBLISH under its own identity on channels of its publish list, OP_SUBSCRIBE on channels of its subscribe
   list, any OP_UNSUBSCRIBE, in any chunking, pipelined or not - then processing it never closes the connection
   (synchronous store).  Together: for EVERY history in which q's own events are such data (and q is not stalled, does
   not hang up and is not reported lost), whatever all the other connections do, q is never disconnected. *)
From Coq Require Import ZArith List Bool Arith Lia.
From Coq Require Import Strings.Byte.
From HP Require Import Bytes Utf8 Sha1 Wire WireFacts ParamsOK Broker BrokerSpec BrokerLemmas BrokerInv BrokerStep BrokerTrace
                       BrokerLocal BrokerProps BrokerProps2 BrokerBenign BrokerBlame.
Import ListNotations.

(* what a connection's own request handling may do to the connection itself *)
Record keeps (q : nat) (s s' : state) : Prop := {
  k_core : (made (conns s' q), lost (conns s' q), aborted (conns s' q), nonce (conns s' q), buf (conns s' q),
            timer (conns s' q), closing (conns s' q)) =
           (made (conns s q), lost (conns s q), aborted (conns s q), nonce (conns s q), buf (conns s q),
            timer (conns s q), closing (conns s q));
  k_open : closing (conns s q) = false -> copen (conns s' q) = copen (conns s q);
  k_id : (ak (conns s' q), pubchans (conns s' q), subchans (conns s' q)) =
         (ak (conns s q), pubchans (conns s q), subchans (conns s q)) }.

Lemma keeps_refl q s : keeps q s s.
Proof. constructor; auto. Qed.
Lemma keeps_trans q a b c : keeps q a b -> keeps q b c -> keeps q a c.
Proof.
  intros [C1 O1 I1] [C2 O2 I2]. constructor.
  - congruence.
  - intros H. rewrite O2, O1; auto. inversion C1. congruence.
  - congruence.
Qed.
Lemma keeps_modc q p f s :
  (forall c, (made (f c), lost (f c), aborted (f c), nonce (f c), buf (f c), timer (f c), closing (f c), copen (f c),
              ak (f c), pubchans (f c), subchans (f c)) =
             (made c, lost c, aborted c, nonce c, buf c, timer c, closing c, copen c, ak c, pubchans c, subchans c)) ->
  keeps q s (modc p f s).
Proof.
  intros H. constructor; cbn; unfold upd; destruct (Nat.eqb_spec q p); subst; auto;
    specialize (H (conns s p)); inversion H; try intros _; congruence.
Qed.
Lemma keeps_same q s s' : conns s' = conns s -> keeps q s s'.
Proof. intros E. constructor; rewrite E; auto. Qed.

Lemma wr_keeps q p f s : keeps q s (wr p f s).
Proof. unfold wr. destruct (_ || _); [apply keeps_refl|]. apply keeps_modc. reflexivity. Qed.
Lemma sub_keeps q p c s : keeps q s (sub p c s).
Proof.
  unfold sub, sub_raw. destruct (memc _ _); [apply keeps_same; reflexivity|].
  apply (keeps_trans q _ (modc p (set_active (c :: active (conns s p))) s)); [apply keeps_modc; reflexivity|].
  apply keeps_same. reflexivity.
Qed.
Lemma unsub_raw_keeps q p c s : keeps q s (unsub_raw p c s).
Proof.
  unfold unsub_raw. destruct (memc _ _); [|apply keeps_refl].
  apply (keeps_trans q _ (modc p (set_active (rmc c (active (conns s p)))) s)); [apply keeps_modc; reflexivity|].
  apply keeps_same. reflexivity.
Qed.
Lemma unsub_keeps q p c s : keeps q s (unsub p c s).
Proof. unfold unsub. eapply keeps_trans; [apply unsub_raw_keeps|apply keeps_same; reflexivity]. Qed.
Lemma unsub_all_keeps q p l : forall s, keeps q s (fold_left (fun s c => unsub_raw p c s) l s).
Proof. induction l as [|c l IH]; intros s; cbn; [apply keeps_refl|]. eapply keeps_trans; [apply unsub_raw_keeps|apply IH]. Qed.
(* connection_lost of a subscriber that was already closing: not q's business unless q itself was closing *)
Lemma lostp_keeps q p s : closing (conns s p) = true -> keeps q s (lostp p s).
Proof.
  intros Hc. unfold lostp.
  set (s1 := fold_left (fun s c => unsub_raw p c s) (active (conns s p)) s).
  assert (K1 : keeps q s s1) by apply unsub_all_keeps.
  apply (keeps_trans q _ s1); [exact K1|].
  apply (keeps_trans q _ (modc p (set_copen false) s1)); [|apply keeps_same; reflexivity].
  constructor; cbn; unfold upd; destruct (Nat.eqb_spec q p); subst; auto.
  intros H. exfalso. destruct K1 as [C _ _]. inversion C. congruence.
Qed.
Lemma deliver_keeps q i c d r dest : keeps q (st r) (st (deliver i c d r dest)).
Proof.
  unfold deliver. destruct r as [s|s|s]; cbn; try apply keeps_refl.
  destruct (closing (conns s dest)) eqn:Hc; [destruct (copen _); cbn; [apply lostp_keeps; exact Hc|apply keeps_refl]|cbn; apply wr_keeps].
Qed.
Lemma publish_keeps q p c d s : keeps q s (st (publish p c d s)).
Proof.
  unfold publish.
  assert (X : forall l r, keeps q (st r) (st (fold_left (deliver (akl (conns s p)) c d) l r))).
  { induction l as [|x l IH]; intros r; cbn; [apply keeps_refl|]. eapply keeps_trans; [apply deliver_keeps|apply IH]. }
  eapply keeps_trans; [|apply X]. cbn. apply keeps_same. reflexivity.
Qed.
Lemma resume_r_keeps q p s : keeps q s (resume_r p s).
Proof. unfold resume_r. destruct (_ || _); [apply keeps_refl|]. apply keeps_modc. reflexivity. Qed.

Section WB.
Variable bname : bytes.
Variable store : ident -> lookup.
Notation Good := (Good (srow store) false).
Notation pp := (pp store false).
Notation handle := (handle store false).
Notation step := (step bname store false).
Notation run := (run bname store false).

(* the requests of a well-behaved client, judged on the INPUT: [cur] is the identity (and stored row) of its latest
   OP_AUTH, [n] the nonce the broker sent it *)
Fixpoint wb_frames (n : bytes) (cur : option (ident * row)) (fs : list (Z * bytes)) : Prop :=
  match fs with
  | [] => True
  | (op, body) :: t =>
      if op =? 2 then
        exists i r, readauth body = Some (i, sha1 (n ++ r_secret r)) /\ store i = LRow r /\ wb_frames n (Some (i, r)) t
      else match cur with
      | None => False
      | Some (me, r) =>
          (if op =? 3 then exists c d, readpublish body = Some (me, c, d) /\ In c (r_pub r)
           else if op =? 4 then exists i c, readsubscribe body = Some (i, c) /\ In c (r_sub r)
           else if op =? 5 then exists i c, readunsubscribe body = Some (i, c)
           else False) /\ wb_frames n cur t
      end
  end.

(* the connection's authenticated identity in the state is [cur] *)
Definition agrees (s : state) (q : nat) (cur : option (ident * row)) : Prop :=
  match cur with
  | None => ak (conns s q) = None
  | Some (me, r) => ak (conns s q) = Some me /\ pubchans (conns s q) = r_pub r /\ subchans (conns s q) = r_sub r
  end.
Lemma agrees_keeps q s s' cur : keeps q s s' -> agrees s q cur -> agrees s' q cur.
Proof. intros [_ _ I] A. inversion I as [[E1 E2 E3]]. unfold agrees in *. destruct cur as [[me r]|]; rewrite ?E1, ?E2, ?E3; exact A. Qed.

(* healthy: connected, registered, not closing *)
Definition healthy (s : state) (q : nat) : Prop :=
  made (conns s q) = true /\ copen (conns s q) = true /\ closing (conns s q) = false.
Lemma healthy_keeps q s s' : keeps q s s' -> healthy s q -> healthy s' q.
Proof.
  intros [C O _] (A & B & D). inversion C as [[E1 E2 E3 E4 E5 E6 E7]]. unfold healthy. rewrite E1, E7, (O D). auto.
Qed.

Definition wf (f : Z * bytes) : Prop := wf_frame limitP f.

(* process_pending on a buffer that holds well-formed, permitted requests (and an incomplete tail): everything is
   accepted, the connection stays healthy, the tail stays buffered *)
Lemma pp_wb q : forall fs fuel s cur rest,
  Good s -> healthy s q -> agrees s q cur ->
  buf (conns s q) = concat (map enc fs) ++ rest -> next limitP rest = NeedMore -> Forall wf fs ->
  wb_frames (nonce (conns s q)) cur fs -> (length (buf (conns s q)) < fuel)%nat ->
  exists s', pp fuel q s = Ok s' /\ Good s' /\ healthy s' q /\ buf (conns s' q) = rest /\
             nonce (conns s' q) = nonce (conns s q) /\ timer (conns s' q) = timer (conns s q) /\
             lost (conns s' q) = lost (conns s q).
Proof.
  induction fs as [|[op body] fs IH]; intros fuel s cur rest G H A Hb Hr Hw W Hf.
  - cbn in Hb. destruct fuel as [|f]; [lia|]. cbn [Broker.pp]. rewrite Hb, Hr. exists s. rewrite Hb. auto 10.
  - destruct fuel as [|f]; [lia|]. cbn [Broker.pp].
    inversion Hw as [|x l Hw1 Hw2]; subst. destruct Hw1 as (Ho & Hl & Hl2). cbn [fst snd] in *.
    cbn [map concat] in Hb. change (enc (op, body)) with (hdr op body) in Hb. rewrite <- app_assoc in Hb. rewrite Hb.
    rewrite (next_hdr limitP op body (concat (map enc fs) ++ rest) Ho Hl Hl2).
    remember (modc q (set_buf (concat (map enc fs) ++ rest)) s) as s1 eqn:Es1.
    assert (K1 : forall c, (made (set_buf (concat (map enc fs) ++ rest) c)) = made c) by reflexivity.
    assert (G1 : Good s1) by (rewrite Es1; apply modc_inert_good; [exact G|intros c; reflexivity]).
    assert (C1 : conns s1 q = set_buf (concat (map enc fs) ++ rest) (conns s q)) by (rewrite Es1; cbn; apply upd_same).
    clear Es1.
    assert (H1 : healthy s1 q) by (destruct H as (X & Y & Z); unfold healthy; rewrite C1; auto).
    assert (A1 : agrees s1 q cur) by (unfold agrees in *; rewrite C1; exact A).
    assert (B1 : buf (conns s1 q) = concat (map enc fs) ++ rest) by (rewrite C1; reflexivity).
    assert (N1 : nonce (conns s1 q) = nonce (conns s q)) by (rewrite C1; reflexivity).
    assert (T1 : timer (conns s1 q) = timer (conns s q)) by (rewrite C1; reflexivity).
    assert (L1 : lost (conns s1 q) = lost (conns s q)) by (rewrite C1; reflexivity).
    assert (F1 : (length (buf (conns s1 q)) < f)%nat).
    { rewrite B1. rewrite Hb in Hf. rewrite app_length in Hf. pose proof (hdr_length op body) as HL. pose proof (zlen_nonneg body). unfold zlen in *. lia. }
    (* after the handler: continue with the rest under IH *)
    assert (CONT : forall s2 cur2, Good s2 -> keeps q s1 s2 -> agrees s2 q cur2 ->
              wb_frames (nonce (conns s q)) cur2 fs ->
              exists s', pp f q s2 = Ok s' /\ Good s' /\ healthy s' q /\ buf (conns s' q) = rest /\
                         nonce (conns s' q) = nonce (conns s q) /\ timer (conns s' q) = timer (conns s q) /\
                         lost (conns s' q) = lost (conns s q)).
    { intros s2 cur2 G2 K2 A2 W2. pose proof (healthy_keeps _ _ _ K2 H1) as H2.
      destruct K2 as [C2 _ _]. inversion C2 as [[E1 E2 E3 E4 E5 E6 E7]].
      assert (B2 : buf (conns s2 q) = concat (map enc fs) ++ rest) by congruence.
      assert (W2' : wb_frames (nonce (conns s2 q)) cur2 fs) by (replace (nonce (conns s2 q)) with (nonce (conns s q)) by congruence; exact W2).
      assert (F2 : (length (buf (conns s2 q)) < f)%nat) by (replace (buf (conns s2 q)) with (buf (conns s1 q)) by congruence; exact F1).
      destruct (IH f s2 cur2 rest G2 H2 A2 B2 Hr Hw2 W2' F2) as (s' & P & G' & H' & B' & N' & T' & L').
      exists s'. split; [exact P|]. split; [exact G'|]. split; [exact H'|]. split; [exact B'|]. repeat split; congruence. }
    unfold Broker.handle. cbn [wb_frames] in W.
    destruct (op =? 2) eqn:E2.
    + (* OP_AUTH *)
      destruct W as (i & r & Ra & Rs & Wt). rewrite Ra.
      unfold on_auth. destruct H1 as (Hm1 & Ho1 & Hc1). rewrite Ho1. cbn [negb].
      rewrite Rs. unfold authenticate. rewrite N1, bytes_eqb_refl. cbv zeta.
      match goal with |- context [Broker.pp _ _ f q ?X] => set (s1a := X) end.
      assert (G1a : Good s1a).
      { apply auth_set_good.
        - apply regauge_good. exact G1.
        - exact Hm1.
        - cbn [regauge conns set_g_subs]. rewrite N1. reflexivity.
        - intros _. exact Rs. }
      assert (C1a : conns s1a q = set_subchans (r_sub r) (set_pubchans (r_pub r) (set_ak (Some i) (conns s1 q)))).
      { unfold s1a. cbn. apply upd_same. }
      assert (H1a : healthy s1a q) by (unfold healthy; rewrite C1a; auto).
      assert (A1a : agrees s1a q (Some (i, r))) by (unfold agrees; rewrite C1a; auto).
      assert (B1a : buf (conns s1a q) = concat (map enc fs) ++ rest) by (rewrite C1a; exact B1).
      assert (W1a : wb_frames (nonce (conns s1a q)) (Some (i, r)) fs) by (rewrite C1a; cbn; rewrite N1; exact Wt).
      assert (F1a : (length (buf (conns s1a q)) < f)%nat) by (rewrite C1a; exact F1).
      destruct (IH f s1a (Some (i, r)) rest G1a H1a A1a B1a Hr Hw2 W1a F1a) as (s2 & P2 & G2 & H2 & B2 & N2 & T2 & L2).
      * rewrite P2.
        set (s3 := match pending (conns s2 q) with [] => resume_r q s2 | _ :: _ => s2 end).
        assert (K3 : keeps q s2 s3) by (unfold s3; destruct (pending _); [apply resume_r_keeps|apply keeps_refl]).
        assert (G3 : Good s3) by (unfold s3; destruct (pending _); [apply resume_r_good|]; exact G2).
        pose proof (healthy_keeps _ _ _ K3 H2) as H3.
        destruct K3 as [C3 _ _]. inversion C3 as [[E1 E2' E3 E4 E5 E6 E7]].
        (* back in the outer loop: the buffer now holds only the tail *)
        destruct f as [|f']; [lia|]. cbn [Broker.pp]. rewrite E5, B2, Hr.
        exists s3. split; [reflexivity|]. split; [exact G3|]. split; [exact H3|]. split; [congruence|].
        split; [|split].
        -- rewrite E4, N2, C1a. cbn. exact N1.
        -- rewrite E6, T2, C1a. cbn. exact T1.
        -- rewrite E2', L2, C1a. cbn. exact L1.
    + destruct cur as [[me r]|]; [|contradiction]. destruct W as (Wop & Wt).
      destruct A1 as (Ak & Ap & As). rewrite Ak.
      destruct (op =? 3) eqn:E3.
      * destruct Wop as (c & d & Rp & Hc). rewrite Rp.
        destruct H1 as (Hm1 & Ho1 & Hc1).
        destruct (permitted_publish store false q me c d s1 G1 Ak ltac:(rewrite Ap; exact Hc) Ho1) as (s2 & P2 & _ & G2).
        rewrite P2. pose proof (publish_keeps q q c d s1) as K2.
        unfold on_publish in P2. rewrite Ak, bytes_eqb_refl in P2. cbn [negb] in P2.
        assert (Hm : memc c (pubchans (conns s1 q)) = true) by (apply memc_In; rewrite Ap; exact Hc).
        rewrite Hm, Ho1 in P2. cbn [negb] in P2. rewrite P2 in K2. cbn [st] in K2.
        apply (CONT s2 (Some (me, r)) G2 K2); [|exact Wt].
        apply (agrees_keeps q s1 s2 _ K2). unfold agrees. auto.
      * destruct (op =? 4) eqn:E4.
        -- destruct Wop as (i & c & Rp & Hc). rewrite Rp.
           destruct H1 as (Hm1 & Ho1 & Hc1).
           destruct (permitted_subscribe q c s1 ltac:(rewrite As; exact Hc) Ho1) as (P2 & _). rewrite P2.
           assert (G2 : Good (sub q c s1)).
           { pose proof (on_subscribe_good store false q c s1 G1 ltac:(rewrite Ak; discriminate)) as X. rewrite P2 in X. exact X. }
           apply (CONT (sub q c s1) (Some (me, r)) G2 (sub_keeps q q c s1)); [|exact Wt].
           apply (agrees_keeps q s1 _ _ (sub_keeps q q c s1)). unfold agrees. auto.
        -- destruct (op =? 5) eqn:E5; [|contradiction].
           destruct Wop as (i & c & Rp). rewrite Rp.
           destruct H1 as (Hm1 & Ho1 & Hc1).
           destruct (any_unsubscribe q c s1 Ho1) as (P2 & _). rewrite P2.
           assert (G2 : Good (unsub q c s1)).
           { pose proof (on_unsubscribe_good store false q c s1 G1 ltac:(rewrite Ak; discriminate)) as X. rewrite P2 in X. exact X. }
           apply (CONT (unsub q c s1) (Some (me, r)) G2 (unsub_keeps q q c s1)); [|exact Wt].
           apply (agrees_keeps q s1 _ _ (unsub_keeps q q c s1)). unfold agrees. auto.
Qed.

(* ---- one data_received ---- *)
(* what is buffered plus the new chunk is a run of well-formed, permitted requests and an incomplete tail *)
Definition wb_chunk (q : nat) (s : state) (cur : option (ident * row)) (chunk : bytes) : Prop :=
  exists fs rest, buf (conns s q) ++ chunk = concat (map enc fs) ++ rest /\ next limitP rest = NeedMore /\
                  Forall wf fs /\ wb_frames (nonce (conns s q)) cur fs.

Lemma do_data_wb q s cur chunk : Good s -> healthy s q -> agrees s q cur -> wb_chunk q s cur chunk ->
  healthy (do_data store false q chunk s) q /\
  timer (conns (do_data store false q chunk s) q) = timer (conns s q).
Proof.
  intros G H A (fs & rest & Hb & Hr & Hw & W). unfold do_data.
  destruct (can_read (conns s q)) eqn:CR; [|split; [exact H|reflexivity]].
  remember (modc q (set_buf (buf (conns s q) ++ chunk)) s) as s0 eqn:Es0.
  assert (G0 : Good s0) by (rewrite Es0; apply modc_inert_good; [exact G|intros c; reflexivity]).
  assert (C0 : conns s0 q = set_buf (buf (conns s q) ++ chunk) (conns s q)) by (rewrite Es0; cbn; apply upd_same).
  clear Es0.
  assert (H0 : healthy s0 q) by (destruct H as (X & Y & Z); unfold healthy; rewrite C0; auto).
  assert (A0 : agrees s0 q cur) by (unfold agrees in *; rewrite C0; exact A).
  assert (B0 : buf (conns s0 q) = concat (map enc fs) ++ rest) by (rewrite C0; exact Hb).
  assert (W0 : wb_frames (nonce (conns s0 q)) cur fs) by (rewrite C0; exact W).
  unfold ppq.
  destruct (pp_wb q fs (S (length (buf (conns s0 q)))) s0 cur rest G0 H0 A0 B0 Hr Hw W0 ltac:(lia))
    as (s' & P & G' & H' & _ & _ & T' & _).
  rewrite P. split; [exact H'|]. rewrite T', C0. reflexivity.
Qed.

(* ---- whole histories ---- *)
(* an event of the history, seen from q: somebody else's (or the clock while q is on no deadline), q's own connection
   being made, or data from q that is well-formed and permitted when it arrives *)
Definition wb_event (q : nat) (s : state) (e : event) : Prop :=
  ~ own q s e \/ (exists n, e = Connect q n) \/
  (exists chunk cur, e = Data q chunk /\ agrees s q cur /\ wb_chunk q s cur chunk).
Fixpoint wb_hist (q : nat) (s : state) (h : list event) : Prop :=
  match h with
  | [] => True
  | e :: t => wb_event q s e /\ wb_hist q (step s e) t
  end.

Definition calm (s : state) (q : nat) : Prop :=
  closing (conns s q) = false /\ timer (conns s q) = None /\ (made (conns s q) = true -> copen (conns s q) = true).

Lemma wb_step q s e : Good s -> calm s q -> wb_event q s e -> calm (step s e) q.
Proof.
  intros G (Hc & Ht & Ho) [N|[(n & ->)|(chunk & cur & -> & A & W)]].
  - destruct (foreign_step bname store false q s e G N) as [S _ _ L]. inversion S as [[E1 E2 E3 E4 E5 E6 E7 E8 E9 E10 E11 E12]].
    destruct (L Hc) as (X & Y & Z). unfold calm. rewrite X, E12, E1, Y. auto.
  - cbn [Broker.step]. unfold do_connect. destruct (made (conns s q)) eqn:Hm; [unfold calm; auto|].
    unfold calm, wr. cbn. rewrite !upd_same. cbn. rewrite !upd_same. cbn. auto.
  - cbn [Broker.step]. destruct (made (conns s q)) eqn:Hm.
    + assert (H : healthy s q) by (unfold healthy; auto).
      destruct (do_data_wb q s cur chunk G H A W) as ((X & Y & Z) & T). unfold calm. rewrite Z, T. auto.
    + unfold do_data, can_read. rewrite Hm. cbn. unfold calm. split; [exact Hc|]. split; [exact Ht|]. rewrite Hm. discriminate.
Qed.

Lemma wb_steps q h : forall s, Good s -> calm s q -> wb_hist q s h -> calm (fold_left step h s) q.
Proof.
  induction h as [|e h IH]; intros s G C W; cbn; [exact C|]. cbn [wb_hist] in W. destruct W as [We Wt].
  apply IH; [apply (step_good bname store false); exact G|apply wb_step; assumption|exact Wt].
Qed.

(* for every history: whatever everybody else does, a connection whose own events are only its connection and
   well-formed, permitted requests is never disconnected (and stays registered) *)
Theorem well_behaved_never_closed h q : wb_hist q state0 h ->
  closing (conns (run h) q) = false /\ (made (conns (run h) q) = true -> copen (conns (run h) q) = true).
Proof.
  intros W. destruct (wb_steps q h state0 (good_state0 bname store false) ltac:(unfold calm; cbn; auto) W) as (A & _ & B). auto.
Qed.
End WB.

(* non-vacuity: connection 0 authenticates as "a", subscribes to and publishes on "x" (pipelined, in two reads) while
   connection 1 connects, sends an undersized frame and is dropped, the clock ticks and 1 is reported lost *)
Module Example.
Definition ra : row := mkrow [x6b] [[x78]] [[x78]].
Definition st (i : ident) : lookup := if bytes_eqb i [x61] then LRow ra else LNone.
Definition n0 : bytes := [x01; x02; x03; x04].
Definition auth_body : bytes := x01 :: x61 :: sha1 (n0 ++ [x6b]).
Definition fs1 : list (Z * bytes) := [(2%Z, auth_body); (4%Z, [x01; x61; x78])].
Definition fs2 : list (Z * bytes) := [(3%Z, [x01; x61; x01; x78; x2a; x2b])].
Definition h : list event :=
  [Connect 0 n0; Connect 1 [x05; x06; x07; x08]; Data 1 [x00; x00; x00; x00; x00];
   Data 0 (concat (map enc fs1)); Data 0 (concat (map enc fs2)); Tick; Lost 1].

Lemma wf_all : Forall wf fs1 /\ Forall wf fs2.
Proof. split; repeat constructor; vm_compute; discriminate. Qed.

Example wb_example : wb_hist [] st 0 state0 h /\
  closing (conns (run [] st false h) 1) = true /\
  pubs (out (conns (run [] st false h) 0)) <> [].
Proof.
  split; [|split; vm_compute; [reflexivity|discriminate]].
  unfold h. cbn [wb_hist].
  split; [right; left; eexists; reflexivity|].
  split; [left; intros [H|[H1 H2]]; discriminate|].
  split; [left; intros [H|[H1 H2]]; discriminate|].
  split.
  { right; right. exists (concat (map enc fs1)), None. split; [reflexivity|]. split; [vm_compute; reflexivity|].
    exists fs1, []. split; [vm_compute; reflexivity|]. split; [reflexivity|]. split; [apply wf_all|].
    unfold fs1. cbn [wb_frames Z.eqb Pos.eqb]. exists [x61], ra. split; [vm_compute; reflexivity|]. split; [reflexivity|].
    split; [|exact I]. exists [x61], [x78]. split; [vm_compute; reflexivity|left; reflexivity]. }
  split.
  { right; right. exists (concat (map enc fs2)), (Some ([x61], ra)). split; [reflexivity|]. split; [vm_compute; repeat split|].
    exists fs2, []. split; [vm_compute; reflexivity|]. split; [reflexivity|]. split; [apply wf_all|].
    unfold fs2. cbn [wb_frames Z.eqb Pos.eqb]. split; [|exact I]. exists [x78], [x2a; x2b]. split; [vm_compute; reflexivity|left; reflexivity]. }
  split; [left; intros [H|[H1 H2]]; [discriminate|apply H2; vm_compute; reflexivity]|].
  split; [left; intros [H|[H1 H2]]; discriminate|exact I].
Qed.
End Example.
