(* BrokerParked.v — C14 over whole histories: what is parked behind a pending OP_AUTH waits, untouched, for the verdict.

   While a connection's credential lookup is in flight its transport is paused.  For EVERY stretch of history in which
   the lookup does not complete and the connection is not lost - whatever the other connections do, however the clock
   runs, whatever bytes the peer goes on sending - the parked connection is untouched: the buffer (the frames behind
   OP_AUTH), the queue of lookups, the identity and the paused flag are exactly as they were (nothing is acted on, nothing
   is dropped); and when the verdict arrives, what happens is exactly the synchronous authenticate, run on that buffer,
   in the state of that moment. *)
From Coq Require Import ZArith List Bool Arith Lia.
From HP Require Import Bytes Sha1 Wire Broker BrokerSpec BrokerLemmas BrokerInv BrokerStep BrokerTrace BrokerLocal BrokerTimer
                       BrokerProps BrokerProps2 BrokerBlame.
Import ListNotations.

Section Parked.
Variable bname : bytes. Variable store : ident -> lookup. Variable async_store : bool.
Notation run := (run bname store async_store).
Notation step := (step bname store async_store).
Notation Good := (Good (srow store) async_store).

(* an event during the wait: not q's own, or bytes arriving for q *)
Definition waiting_event (q : nat) (s : state) (e : event) : Prop := ~ own q s e \/ exists ch, e = Data q ch.
Fixpoint waiting (q : nat) (s : state) (h : list event) : Prop :=
  match h with
  | [] => True
  | e :: t => waiting_event q s e /\ waiting q (step s e) t
  end.

Lemma waiting_steps q h : forall s, Good s -> rpaused (conns s q) = true -> waiting q s h ->
  untouched (conns s q) (conns (fold_left step h s) q).
Proof.
  induction h as [|e h IH]; intros s G P W; cbn; [apply untouched_refl|].
  cbn [waiting] in W. destruct W as [We Wt].
  assert (U : untouched (conns s q) (conns (step s e) q)).
  { destruct We as [N|(ch & ->)].
    - apply (foreign_step bname store async_store); assumption.
    - cbn [Broker.step]. rewrite (paused_ignores_data store async_store q ch s P). apply untouched_refl. }
  apply (untouched_trans _ (conns (step s e) q)); [exact U|].
  apply IH; [apply (step_good bname store async_store); exact G| |exact Wt].
  destruct U as [S _ _ _]. injection S as E1 E2 E3 E4 E5 E6 E7 E8 E9 E10 E11 E12. congruence.
Qed.

Theorem parked_until_verdict h1 h2 q i dg rest l :
  async_store = true -> made (conns (run h1) q) = true ->
  pending (conns (run h1) q) = (i, dg) :: rest -> rpaused (conns (run h1) q) = true ->
  waiting q (run h1) h2 ->
  untouched (conns (run h1) q) (conns (run (h1 ++ h2)) q) /\
  buf (conns (run (h1 ++ h2)) q) = buf (conns (run h1) q) /\
  pending (conns (run (h1 ++ h2)) q) = (i, dg) :: rest /\
  run (h1 ++ h2 ++ [LookupDone q (RLook l)]) =
    match authenticate (ppq store async_store q) q i dg l (modc q (set_pending rest) (run (h1 ++ h2))) with
    | Raise s3 => cl q s3
    | r' => st r'
    end.
Proof.
  intros Ha Hm Hp Hr W.
  assert (U : untouched (conns (run h1) q) (conns (run (h1 ++ h2)) q)).
  { unfold Broker.run. rewrite fold_left_app. apply waiting_steps; [apply run_good|exact Hr|exact W]. }
  split; [exact U|]. destruct U as [S O C A]. injection S as E1 E2 E3 E4 E5 E6 E7 E8 E9 E10 E11 E12.
  split; [congruence|]. split; [congruence|].
  rewrite app_assoc. unfold Broker.run at 1. rewrite fold_left_app. cbn [fold_left Broker.step].
  apply (completion_is_sync_authenticate store async_store); [exact Ha|congruence|congruence].
Qed.
End Parked.

(* non-vacuity: connection 0 sends OP_AUTH with an OP_SUBSCRIBE pipelined behind it; while its lookup is in flight
   connection 1 connects and is dropped for an undersized frame, the clock ticks, and more bytes arrive for 0 *)
From Coq Require Import Strings.Byte.
Module ParkedExample.
Definition st (i : ident) : lookup := LNone.
Definition n0 : bytes := [x01; x02; x03; x04].
Definition auth_body : bytes := x01 :: x61 :: sha1 (n0 ++ [x6b]).
Definition chunk0 : bytes := enc (2%Z, auth_body) ++ enc (4%Z, [x01; x61; x78]).
Definition h1 : list event := [Connect 0 n0; Data 0 chunk0].
Definition h2 : list event :=
  [Connect 1 [x05; x06; x07; x08]; Data 1 [x00; x00; x00; x00; x00]; Tick; Data 0 [x00; x00]; Lost 1].
Example parked_example :
  made (conns (run [] st true h1) 0) = true /\
  pending (conns (run [] st true h1) 0) = [([x61], sha1 (n0 ++ [x6b]))] /\
  rpaused (conns (run [] st true h1) 0) = true /\
  buf (conns (run [] st true h1) 0) = enc (4%Z, [x01; x61; x78]) /\
  waiting [] st true 0 (run [] st true h1) h2.
Proof.
  split; [vm_compute; reflexivity|]. split; [vm_compute; reflexivity|]. split; [vm_compute; reflexivity|].
  split; [vm_compute; reflexivity|].
  unfold h2. cbn [waiting].
  split; [left; intros [H|[H1 H2]]; discriminate|].
  split; [left; intros [H|[H1 H2]]; discriminate|].
  split; [left; intros [H|[H1 H2]]; [discriminate|apply H2; vm_compute; reflexivity]|].
  split; [right; eexists; reflexivity|].
  split; [left; intros [H|[H1 H2]]; discriminate|exact I].
Qed.
End ParkedExample.
