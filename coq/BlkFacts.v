(* BlkFacts.v — the blocking thread session (BlkSession.v):
   C12  what read() returned ++ what waits in read_queue = every OP_PUBLISH decoded, in order (all histories);
   C11  the handshake clause is FALSE for this client (blk_handshake_refuted: finding F6) and holds on every
        connection on which the application did not write before the OP_INFO (blk_handshake_partial). *)
From Coq Require Import ZArith List Bool Arith Lia.
From Coq Require Import Strings.Byte.
From HP Require Import Bytes Utf8 Sha1 Wire ParamsOK ClientProto AioSession AioFacts BlkSession.
Import ListNotations.

Arguments next : simpl never.
Arguments readinfo : simpl never.
Arguments readpublish : simpl never.
Arguments readerror : simpl never.
Arguments readauth : simpl never.
Arguments readsubscribe : simpl never.
Arguments msgauth : simpl never.
Arguments Z.eqb : simpl never.

Section BF.
Variable ident secret : bytes.
Hypothesis ident_fits : (zlen ident <= 255)%Z.
Notation bstep := (bstep ident secret).
Notation brun := (brun ident secret).
Notation smessage := (smessage ident secret).
Notation sloop := (sloop ident secret).

Lemma apply_evs_app a b cs : apply_evs (a ++ b) cs = apply_evs b (apply_evs a cs).
Proof. unfold apply_evs. apply fold_left_app. Qed.

(* generic: a property kept by every message's events and by the loop's own events is kept by the loop *)
Lemma sloop_keeps (P : bconn * bsess -> Prop) :
  (forall op body cs, P cs -> P (apply_evs (fst (smessage op body)) cs)) ->
  (forall e cs, (e = ProtoError \/ e = Close \/ e = Raised) -> P cs -> P (apply_ev e cs)) ->
  forall fuel buf cs, P cs -> P (apply_evs (fst (sloop fuel buf)) cs).
Proof.
  intros Hm He. induction fuel as [|f IH]; intros buf cs Hp; cbn [BlkSession.sloop]; [exact Hp|].
  destruct (next limitP buf) as [|c|op body rest].
  - exact Hp.
  - cbn. apply He; [auto|]. apply He; [auto|]. exact Hp.
  - destruct (smessage op body) as [evs raised] eqn:Em.
    pose proof (Hm op body cs Hp) as H1. rewrite Em in H1. cbn [fst] in H1.
    destruct raised.
    + cbn [fst]. rewrite apply_evs_app. cbn. apply He; auto.
    + specialize (IH rest (apply_evs evs cs) H1).
      destruct (sloop f rest) as [evs' buf']. cbn [fst] in *. rewrite apply_evs_app. exact IH.
Qed.

(* ---- C12 ---- *)
Definition Qb (s : bsess) : Prop := b_got s ++ b_queue s = b_recvd s.
Lemma apply_ev_Qb e cs : Qb (snd cs) -> Qb (snd (apply_ev e cs)).
Proof.
  destruct cs as [c s]. unfold Qb. destruct e; cbn; auto.
  intros H. rewrite app_assoc, H. reflexivity.
Qed.
Lemma apply_evs_Qb evs : forall cs, Qb (snd cs) -> Qb (snd (apply_evs evs cs)).
Proof. induction evs as [|e evs IH]; intros cs H; cbn; [exact H|]. apply IH. apply apply_ev_Qb. exact H. Qed.

Theorem bstep_Qb s e : Qb s -> Qb (bstep s e).
Proof.
  intros H. destruct e; cbn [BlkSession.bstep].
  - destruct (b_cur s); exact H.
  - destruct (b_cur s) as [c|]; [|exact H]. destruct (b_closed c); [exact H|].
    destruct (sdata ident secret (b_buf c) chunk) as [evs buf'].
    match goal with |- context [apply_evs evs ?x] => pose proof (apply_evs_Qb evs x H) as K; destruct (apply_evs evs x) as [c' s'] end.
    exact K.
  - destruct (b_cur s); exact H.
  - destruct (render ident secret f); [|exact H]. cbn. destruct (b_cur s); exact H.
  - unfold Qb in *. destruct (b_queue s) as [|m q] eqn:Eq; [rewrite Eq; exact H|]. cbn. rewrite <- app_assoc. exact H.
Qed.
Theorem brun_Qb es : Qb (brun es).
Proof.
  unfold BlkSession.brun. assert (X : forall s, Qb s -> Qb (fold_left bstep es s)).
  { induction es as [|e es IH]; intros s H; cbn; [exact H|]. apply IH. apply bstep_Qb. exact H. }
  apply X. reflexivity.
Qed.

(* ---- C11, the part that holds ---- *)
Definition BIc (c : bconn) : Prop :=
  b_early c = false ->
  match b_nonce c with
  | None => b_out c = []                                                       (* silent until an OP_INFO is decoded *)
  | Some n => exists rest f, msgauth n ident secret = Some f /\ b_out c = rest ++ [f]   (* oldest frame: OP_AUTH for it *)
  end.

Lemma quiet_ev_BIc e cs :
  match e with Write _ | HInfo _ _ => False | _ => True end -> BIc (fst cs) -> BIc (fst (apply_ev e cs)).
Proof. destruct cs as [c s]. destruct e; cbn; intros Hq H; try contradiction; exact H. Qed.

Lemma smessage_BIc op body cs : BIc (fst cs) -> BIc (fst (apply_evs (fst (smessage op body)) cs)).
Proof.
  intros H. unfold BlkSession.smessage.
  destruct (Z.eqb op 0).
  { destruct (readerror body); cbn; [apply quiet_ev_BIc; [exact I|exact H]|exact H]. }
  unfold blk_message.
  destruct (Z.eqb op 0); [destruct (readerror body); cbn; [apply quiet_ev_BIc; [exact I|exact H]|exact H]|].
  destruct (Z.eqb op 1).
  { destruct (readinfo body) as [[n r]|]; [|exact H].
    destruct (msgauth r ident secret) as [f|] eqn:Ea.
    - destruct cs as [c s]. cbn. unfold BIc in *. cbn in *. intros He. specialize (H He).
      destruct (b_nonce c) as [n0|].
      + destruct H as (rest & f0 & H1 & H2). exists (f :: rest), f0. split; [exact H1|]. rewrite H2. reflexivity.
      + exists [], f. split; [exact Ea|]. rewrite H. reflexivity.
    - exfalso. apply (render_auth ident secret ident_fits r). exact Ea. }
  destruct (Z.eqb op 2).
  { destruct (readauth body) as [[i d]|]; [|exact H]. cbn.
    repeat (apply quiet_ev_BIc; [exact I|]). exact H. }
  destruct (Z.eqb op 3).
  { destruct (readpublish body) as [[[i c] d]|]; [|exact H]. cbn. apply quiet_ev_BIc; [exact I|exact H]. }
  destruct (Z.eqb op 4).
  { destruct (readsubscribe body) as [[i c]|]; [|exact H]. cbn. repeat (apply quiet_ev_BIc; [exact I|]). exact H. }
  destruct (Z.eqb op 5).
  { destruct (readunsubscribe body) as [[i c]|]; [|exact H]. cbn. repeat (apply quiet_ev_BIc; [exact I|]). exact H. }
  cbn. repeat (apply quiet_ev_BIc; [exact I|]). exact H.
Qed.

Lemma loop_evs_BIc e (cs : bconn * bsess) : (e = ProtoError \/ e = Close \/ e = Raised) -> BIc (fst cs) -> BIc (fst (apply_ev e cs)).
Proof. intros [E|[E|E]] H; subst e; (apply quiet_ev_BIc; [exact I|exact H]). Qed.

Definition BI (s : bsess) : Prop :=
  (forall c, b_cur s = Some c -> BIc c) /\ (forall c, In c (b_past s) -> BIc c).

Lemma apply_ev_past e cs : b_past (snd (apply_ev e cs)) = b_past (snd cs).
Proof. destruct cs as [c s]. destruct e; reflexivity. Qed.
Lemma apply_evs_past evs : forall cs, b_past (snd (apply_evs evs cs)) = b_past (snd cs).
Proof. induction evs as [|e evs IH]; intros cs; cbn; [reflexivity|]. rewrite IH. apply apply_ev_past. Qed.

Theorem bstep_BI s e : BI s -> BI (bstep s e).
Proof.
  intros [Hc Hp]. destruct e; cbn [BlkSession.bstep].
  - destruct (b_cur s) eqn:Ec; [split; [intros c0 H; apply Hc; rewrite <- H; symmetry; exact Ec|exact Hp]|].
    split; [|exact Hp]. cbn. intros c H. inversion H; subst. unfold BIc. cbn. auto.
  - destruct (b_cur s) as [c|] eqn:Ec; [|split; [rewrite Ec; intros ? H; discriminate|exact Hp]].
    destruct (b_closed c); [split; [rewrite Ec; exact Hc|exact Hp]|].
    unfold BlkSession.sdata.
    match goal with |- context [BlkSession.sloop _ _ ?f ?b] =>
      pose proof (sloop_keeps (fun cs => BIc (fst cs)) smessage_BIc loop_evs_BIc f b) as K;
      destruct (BlkSession.sloop ident secret f b) as [evs buf'] eqn:El end.
    match goal with |- context [apply_evs evs ?x] => specialize (K x); pose proof (apply_evs_past evs x) as Kp;
      destruct (apply_evs evs x) as [c' s'] eqn:Eap end.
    cbn [fst snd] in *. split.
    + cbn. intros c0 H. inversion H; subst. rewrite Eap in K. apply K. unfold BIc. cbn. apply (Hc c eq_refl).
    + cbn. rewrite Kp. exact Hp.
  - destruct (b_cur s) as [c|] eqn:Ec; [|split; [rewrite Ec; intros ? H; discriminate|exact Hp]].
    split; [cbn; intros ? H; discriminate|]. cbn. intros c0 [<-|H]; [apply Hc; reflexivity|apply Hp; exact H].
  - destruct (render ident secret f) as [fr|]; cbn; [|split; [exact Hc|exact Hp]].
    destruct (b_cur s) as [c|] eqn:Ec; cbn.
    + split; [|exact Hp]. intros c0 H. inversion H; subst. unfold BIc. cbn.
      specialize (Hc c eq_refl). unfold BIc in Hc. intros He. apply orb_false_iff in He. destruct He as [He1 He2].
      specialize (Hc He1). destruct (b_nonce c) as [n|]; [|discriminate].
      destruct Hc as (rest & f0 & H1 & H2). exists (fr :: rest), f0. split; [exact H1|]. rewrite H2. reflexivity.
    + split; [intros ? H; discriminate|exact Hp].
  - destruct (b_queue s); split; cbn; auto.
Qed.

(* on every connection on which the application did not write before the OP_INFO, nothing is put into the outbox
   before an OP_INFO has been decoded and the oldest frame is the OP_AUTH for that OP_INFO's nonce *)
Theorem blk_handshake_partial es : BI (brun es).
Proof.
  unfold BlkSession.brun. assert (X : forall s, BI s -> BI (fold_left bstep es s)).
  { induction es as [|e es IH]; intros s H; cbn; [exact H|]. apply IH. apply bstep_BI. exact H. }
  apply X. split; cbn; [discriminate|contradiction].
Qed.

(* ---- C11 is false of this client: an application call between the TCP connect (when_connected is set there) and
   the OP_INFO puts its frame first; the broker then sees SUBSCRIBE before AUTH (finding F6) ---- *)
Theorem blk_handshake_refuted :
  exists es c fr, b_cur (brun es) = Some c /\ b_nonce c = None /\ b_out c = [fr] /\ msgsubscribe ident [x63] = Some fr.
Proof.
  destruct (msgsubscribe ident [x63]) as [fr|] eqn:E.
  - exists [BConn; BApp (FSub [x63])], (mkbc [] [fr] false None true), fr.
    unfold BlkSession.brun. cbn [fold_left BlkSession.bstep]. cbn [render]. rewrite E. cbn. auto.
  - exfalso. apply (render_sub ident secret ident_fits [x63]). exact E.
Qed.
End BF.
