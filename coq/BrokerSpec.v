(* BrokerSpec.v — the abstract pub/sub machine the broker is proved to refine (read this first).
   It consumes the log of accepted actions (oldest first = the tail of the list first) and says who
   receives what:  a PUBLISH accepted on channel c goes, once, to every connection that currently holds
   a subscription to c and is not closing, and to nobody else. *)
From Coq Require Import ZArith List Bool Arith.
From HP Require Import Bytes Broker.
Import ListNotations.

Definition msg := (ident * chan * bytes)%type.
Record sstate := mks { sp_sub : nat -> list chan;      (* channels each connection currently holds *)
                       sp_closed : nat -> bool;        (* the broker (or the peer) has closed it *)
                       sp_out : nat -> list msg }.     (* what it was sent, newest first *)
Definition sstate0 : sstate := mks (fun _ => []) (fun _ => false) (fun _ => []).

Definition sstep (t : sstate) (a : action) : sstate :=
  match a with
  | ASub q c => mks (upd (sp_sub t) q (if memc c (sp_sub t q) then sp_sub t q else c :: sp_sub t q))
                    (sp_closed t) (sp_out t)
  | AUnsub q c => mks (upd (sp_sub t) q (rmc c (sp_sub t q))) (sp_closed t) (sp_out t)
  | AGone q => mks (upd (sp_sub t) q []) (sp_closed t) (sp_out t)
  | AClose q => mks (sp_sub t) (upd (sp_closed t) q true) (sp_out t)
  | APub p i c d =>
      mks (sp_sub t) (sp_closed t)
          (fun q => if memc c (sp_sub t q) && negb (sp_closed t q) then (i, c, d) :: sp_out t q else sp_out t q)
  | AConn q _ => mks (upd (sp_sub t) q []) (upd (sp_closed t) q false) (upd (sp_out t) q [])   (* a new connection starts with nothing *)
  | AAuth _ _ _ _ => t
  end.
(* logs are kept newest first *)
Fixpoint spec (l : list action) : sstate :=
  match l with [] => sstate0 | a :: t => sstep (spec t) a end.

(* the PUBLISH frames among what the model wrote to a connection *)
Fixpoint pubs (l : list frame) : list msg :=
  match l with
  | [] => []
  | FPub i c d :: t => (i, c, d) :: pubs t
  | _ :: t => pubs t
  end.

(* who authenticated as what: the last accepted AUTH of q in the log, and q's nonce *)
Fixpoint last_auth (l : list action) (q : nat) : option (ident * row) :=
  match l with
  | [] => None
  | AAuth q' i r _ :: t => if Nat.eqb q' q then Some (i, r) else last_auth t q
  | AConn q' _ :: t => if Nat.eqb q' q then None else last_auth t q
  | _ :: t => last_auth t q
  end.
Fixpoint conn_nonce (l : list action) (q : nat) : option bytes :=
  match l with
  | [] => None
  | AConn q' n :: t => if Nat.eqb q' q then Some n else conn_nonce t q
  | _ :: t => conn_nonce t q
  end.
