(* AioClose.v — C13 for the asyncio session: close() completes from every connection phase and nothing is
   attempted afterwards; after any loss the session gets back to an authenticated, resubscribed connection. *)
From Coq Require Import ZArith List Bool Arith Lia.
From Coq Require Import Strings.Byte.
From HP Require Import Bytes Utf8 Sha1 Wire WireFacts WireRoundtrip ParamsOK ParamsC05 AioSession AioFacts.
Import ListNotations.

Section AC.
Variable ident secret : bytes.
Hypothesis ident_fits : (zlen ident <= 255)%Z.
Hypothesis ident_utf8 : utf8_valid ident = true.
Notation astep := (astep ident secret).
Notation arun := (arun ident secret).

(* ---- P1: a connection attempt is pending only while the reconnect task is in _tryconnect ---------------- *)
Definition P1 (s : asess) : Prop := pend s = true -> pc s = PConnecting.
Definition ctl (s : asess) := (pc s, pend s).
Lemma P1_ctl s s' : ctl s' = ctl s -> P1 s -> P1 s'.
Proof. unfold ctl, P1. intros H. injection H. intros -> ->. auto. Qed.

Lemma run_reconnect_P1 s : P1 s -> P1 (run_reconnect s).
Proof.
  unfold P1, run_reconnect, loop_top. intros H.
  destruct (cancel_req s); destruct (pc s) eqn:Ep; try destruct (closing s); try destruct (outcome s) as [[|]|];
    cbn; intros X; try discriminate X; try reflexivity; try (specialize (H X); congruence).
Qed.
Lemma run_close_ctl s : ctl (run_close s) = ctl s.
Proof.
  unfold ctl, run_close. destruct (cst s); try reflexivity.
  - cbn. destruct (tr s); [reflexivity|]. destruct (pc s); reflexivity.
  - destruct (wcl_done s); reflexivity.
Qed.
Lemma run_loop_P1 fuel : forall s, P1 s -> P1 (run_loop fuel s).
Proof.
  induction fuel as [|f IH]; intros s H; [exact H|]. cbn [run_loop].
  destruct (ready s) as [|[|] t]; [exact H| |]; apply IH.
  - apply run_reconnect_P1. exact H.
  - eapply P1_ctl; [apply run_close_ctl|]. exact H.
Qed.
Lemma do_idle_P1 s : P1 s -> P1 (do_idle s).
Proof. intros H. unfold do_idle. eapply P1_ctl; [|apply run_loop_P1; exact H]. reflexivity. Qed.

Definition fa (s : asess) := (pc s, pend s, attempts s).
Lemma ctl_of_fa s s' : fa s' = fa s -> ctl s' = ctl s.
Proof. unfold fa, ctl. intros H. injection H. intros _ -> ->. reflexivity. Qed.
Lemma wrk_fa k f s : fa (wrk ident secret k f s) = fa s.
Proof. unfold wrk. destruct (render _ _ _); reflexivity. Qed.
Lemma fold_wrk_fa k l : forall s, fa (fold_left (fun st t => wrk ident secret k (FSub t) st) l s) = fa s.
Proof. induction l as [|t l IH]; intros s; cbn [fold_left]; [reflexivity|]. rewrite IH. apply wrk_fa. Qed.
Lemma on_frame_fa k op body s : fa (fst (on_frame ident secret k op body s)) = fa s.
Proof.
  unfold on_frame. destruct (op =? 1)%Z.
  { destruct (readinfo body) as [[n r]|]; [|reflexivity]. destruct (msgauth r ident secret); [|reflexivity].
    match goal with |- context [fold_left ?F ?L ?S0] => pose proof (fold_wrk_fa k L S0) as X; set (s3 := fold_left F L S0) in * end.
    clearbody s3. cbn in X. destruct (wc_done s3); cbn; exact X. }
  destruct (op =? 3)%Z; [destruct (readpublish body); reflexivity|].
  destruct (op =? 0)%Z; [reflexivity|].
  destruct (op =? 2)%Z; [destruct (readauth body); reflexivity|].
  destruct (op =? 4)%Z; [destruct (readsubscribe body); reflexivity|].
  destruct (op =? 5)%Z; [destruct (readunsubscribe body); reflexivity|]. reflexivity.
Qed.
Lemma drainc_fa fuel k : forall s, fa (fst (drainc ident secret fuel k s)) = fa s.
Proof.
  induction fuel as [|f IH]; intros s; [reflexivity|]. cbn [drainc].
  destruct (next limitP _) as [|c|op body rest]; [reflexivity|reflexivity|].
  pose proof (on_frame_fa k op body (setbuf k rest s)) as E.
  destruct (on_frame ident secret k op body (setbuf k rest s)) as [s1 exn]. cbn in E. destruct exn; [exact E|].
  rewrite IH. exact E.
Qed.
Lemma drainc_ctl fuel k s : ctl (fst (drainc ident secret fuel k s)) = ctl s.
Proof. apply ctl_of_fa. apply drainc_fa. Qed.

Theorem step_P1 s e : P1 s -> P1 (astep s e).
Proof.
  intros H. destruct e; cbn [AioSession.astep].
  - apply do_idle_P1; exact H.
  - unfold resolve. destruct (_ && _); [|exact H]. apply do_idle_P1. eapply P1_ctl; [|exact H]. reflexivity.
  - unfold resolve. destruct (_ && _); [|exact H]. apply do_idle_P1. eapply P1_ctl; [|exact H]. reflexivity.
  - unfold do_adv. pose proof (do_idle_P1 s H) as H0. destruct (pc (do_idle s)) eqn:E; try exact H0.
    destruct (_ <=? _)%nat.
    + apply do_idle_P1. eapply P1_ctl; [|exact H0]. unfold ctl. rewrite E. reflexivity.
    + unfold P1 in *. cbn. intros X. specialize (H0 X). congruence.
  - unfold do_data. destruct (_ && _); [|exact H].
    match goal with |- context [drainc _ _ ?F k ?S0] => pose proof (drainc_ctl F k S0) as E; destruct (drainc ident secret F k S0) as [s1 exn] end.
    cbn [fst] in E. destruct exn; (eapply P1_ctl; [|exact H]); [unfold ctl in *; cbn; exact E|exact E].
  - unfold do_lost. destruct (_ && _); [|exact H]. destruct (wcl_done _); (eapply P1_ctl; [|exact H]); reflexivity.
  - unfold do_sub. destruct (memb c (wanted s)); [exact H|]. cbn. destruct (cur s); [|exact H].
    eapply P1_ctl; [|exact H]. unfold wrk. destruct (render _ _ _); reflexivity.
  - unfold do_unsub. destruct (memb c (wanted s)); [|exact H]. cbn. destruct (cur s); [|exact H].
    eapply P1_ctl; [|exact H]. unfold wrk. destruct (render _ _ _); reflexivity.
  - unfold do_pub. destruct (cur s); [|exact H]. eapply P1_ctl; [|exact H]. unfold wrk. destruct (render _ _ _); reflexivity.
  - exact H.
  - unfold do_close. destruct (cst s); exact H.
Qed.
Theorem run_P1 es : P1 (arun es).
Proof.
  unfold AioSession.arun. assert (X : forall s, P1 s -> P1 (fold_left astep es s)).
  { induction es as [|e es IH]; intros s H; cbn; [exact H|]. apply IH. apply step_P1. exact H. }
  apply X. unfold P1. cbn. discriminate.
Qed.

(* ---- T1: once the reconnect task has finished, nothing is ever attempted again ----------------------------- *)
Definition finished (s : asess) : Prop := pc s = PDone /\ pend s = false.
Lemma run_reconnect_finished s : finished s -> fa (run_reconnect s) = fa s.
Proof. intros [E1 E2]. unfold run_reconnect. destruct (cancel_req s); rewrite E1; reflexivity. Qed.
Lemma run_close_fa s : fa (run_close s) = fa s.
Proof.
  unfold fa, run_close. destruct (cst s); try reflexivity.
  - cbn. destruct (tr s); [reflexivity|]. destruct (pc s); reflexivity.
  - destruct (wcl_done s); reflexivity.
Qed.
Lemma finished_fa s s' : fa s' = fa s -> finished s -> finished s'.
Proof. unfold fa, finished. intros H. injection H. intros _ -> ->. auto. Qed.
Lemma run_loop_finished fuel : forall s, finished s -> fa (run_loop fuel s) = fa s.
Proof.
  induction fuel as [|f IH]; intros s H; [reflexivity|]. cbn [run_loop].
  destruct (ready s) as [|[|] t]; [reflexivity| |].
  - assert (F1 : finished (pop_ready s)) by exact H.
    rewrite IH; [rewrite run_reconnect_finished by exact F1; reflexivity|].
    eapply finished_fa; [apply run_reconnect_finished; exact F1|exact F1].
  - rewrite IH; [rewrite run_close_fa; reflexivity|]. eapply finished_fa; [apply run_close_fa|exact H].
Qed.
Lemma serve_reads_fa x : fa (serve_reads x) = fa x.
Proof. reflexivity. Qed.
Lemma do_idle_finished s : finished s -> fa (do_idle s) = fa s.
Proof. intros H. unfold do_idle. rewrite serve_reads_fa. apply run_loop_finished. exact H. Qed.
Theorem finished_forever s e : finished s -> finished (astep s e) /\ attempts (astep s e) = attempts s.
Proof.
  intros H. assert (G : fa (astep s e) = fa s).
  { destruct e; cbn [AioSession.astep].
    - apply do_idle_finished. exact H.
    - unfold resolve. destruct H as [_ ->]. reflexivity.
    - unfold resolve. destruct H as [_ ->]. reflexivity.
    - unfold do_adv. pose proof (do_idle_finished s H) as X.
      assert (E : pc (do_idle s) = PDone) by (change (fst (fst (fa (do_idle s))) = PDone); rewrite X; apply H). rewrite E. exact X.
    - unfold do_data. destruct (_ && _); [|reflexivity].
      match goal with |- context [drainc _ _ ?F k ?S0] => pose proof (drainc_fa F k S0) as E;
        destruct (drainc ident secret F k S0) as [s1 exn] end.
      cbn [fst] in E. destruct exn; [|exact E]. unfold fa in *. cbn. exact E.
    - unfold do_lost. destruct (_ && _); [|reflexivity]. destruct (wcl_done _); reflexivity.
    - unfold do_sub. destruct (memb c (wanted s)); [reflexivity|]. cbn. destruct (cur s); [|reflexivity]. unfold wrk. destruct (render _ _ _); reflexivity.
    - unfold do_unsub. destruct (memb c (wanted s)); [|reflexivity]. cbn. destruct (cur s); [|reflexivity]. unfold wrk. destruct (render _ _ _); reflexivity.
    - unfold do_pub. destruct (cur s); [|reflexivity]. unfold wrk. destruct (render _ _ _); reflexivity.
    - reflexivity.
    - unfold do_close. destruct (cst s); reflexivity. }
  split; [eapply finished_fa; eauto|]. unfold fa in G. injection G. auto.
Qed.
(* ---- T2 / T3: close() completes in every connection phase ------------------------------------------------ *)
(* not connected: about to start, connecting, backing off, or the loss was just reported (tr = None) *)
Theorem close_not_connected s :
  cst s = CNone -> tr s = None -> cancel_req s = false -> (ready s = [] \/ ready s = [TR]) -> P1 s ->
  let s' := astep (astep s AClose) AIdle in
  cst s' = CDone /\ finished s' /\ closing s' = true.
Proof.
  intros Hc Ht Hx Hr Hp. destruct s as [w p cu t cs cl wc wcl q dl wt rc at_ pe oc cr cst_ rd ra].
  cbn in Hc, Ht, Hx, Hr. subst cst_ t cr. unfold P1 in Hp. cbn in Hp. unfold finished.
  destruct Hr as [-> | ->]; destruct p; destruct cl; destruct oc as [[|]|]; destruct pe;
    try (specialize (Hp eq_refl); discriminate); vm_compute; repeat split; reflexivity.
Qed.

(* connected (before or after OP_INFO): close the transport, and when it reports the loss close() returns *)
Lemma nth_upd_same k f cs : (k < length cs)%nat -> nth k (upd_conn k f cs) aconn0 = f (nth k cs aconn0).
Proof. revert k. induction cs as [|c t IH]; intros [|k] Hk; cbn in *; try lia; [reflexivity|]. apply IH. lia. Qed.

Definition setclosing (c : aconn) : aconn := mkac (cbuf c) (cout c) true (clost c) (caborted c) (cnonce c).
Lemma close_connected_1 s k :
  cst s = CNone -> tr s = Some k -> cancel_req s = false -> ready s = [] -> pc s = PWaitClosed -> wcl_done s = false ->
  pend s = false ->
  let s1 := astep (astep s AClose) AIdle in
  conns s1 = upd_conn k setclosing (conns s) /\ cst s1 = CWaiting /\ pc s1 = PWaitClosed /\ wcl_done s1 = false /\
  ready s1 = [] /\ cancel_req s1 = false /\ closing s1 = true /\ pend s1 = false /\ attempts s1 = attempts s.
Proof.
  intros Hc Ht Hx Hr Hp Hw Hpe. destruct s as [w p cu t cs cl wc wcl q dl wt rc at_ pe oc cr cst_ rd ra].
  cbn in Hc, Ht, Hx, Hr, Hp, Hw, Hpe. subst cst_ t cr rd p wcl pe. vm_compute. repeat split; reflexivity.
Qed.
Lemma close_connected_2 s1 k :
  cst s1 = CWaiting -> pc s1 = PWaitClosed -> wcl_done s1 = false -> ready s1 = [] -> cancel_req s1 = false ->
  closing s1 = true -> pend s1 = false -> (k < length (conns s1))%nat -> clost (getc s1 k) = false ->
  let s2 := astep (astep s1 (ALost k)) AIdle in
  cst s2 = CDone /\ finished s2 /\ attempts s2 = attempts s1.
Proof.
  intros Hc Hp Hw Hr Hx Hcl Hpe Hk Hl. cbv zeta. cbn [AioSession.astep]. unfold do_lost.
  apply Nat.ltb_lt in Hk. rewrite Hk, Hl. cbn [andb negb].
  destruct s1 as [w p cu t cs cl wc wcl q dl wt rc at_ pe oc cr cst_ rd ra].
  cbn in Hc, Hp, Hw, Hr, Hx, Hcl, Hpe. subst cst_ p wcl rd cr cl pe. unfold finished. vm_compute. repeat split; reflexivity.
Qed.
Theorem close_connected s k :
  cst s = CNone -> tr s = Some k -> cancel_req s = false -> ready s = [] -> pc s = PWaitClosed -> wcl_done s = false ->
  pend s = false -> (k < length (conns s))%nat -> clost (getc s k) = false ->
  let s1 := astep (astep s AClose) AIdle in
  let s2 := astep (astep s1 (ALost k)) AIdle in
  cclosing (getc s1 k) = true /\ cst s2 = CDone /\ finished s2 /\ attempts s2 = attempts s.
Proof.
  intros Hc Ht Hx Hr Hp Hw Hpe Hk Hl. cbv zeta.
  destruct (close_connected_1 s k Hc Ht Hx Hr Hp Hw Hpe) as (E1 & E2 & E3 & E4 & E5 & E6 & E7 & E8 & E9).
  set (s1 := astep (astep s AClose) AIdle) in *.
  assert (G : getc s1 k = setclosing (getc s k)) by (unfold getc; rewrite E1; apply nth_upd_same; exact Hk).
  split; [rewrite G; reflexivity|].
  destruct (close_connected_2 s1 k E2 E3 E4 E5 E6 E7 E8) as (R1 & R2 & R3).
  - rewrite E1, upd_conn_length. exact Hk.
  - rewrite G. exact Hl.
  - rewrite <- E9. auto.
Qed.

(* ---- T4: after any loss the session comes back: authenticated with the new nonce and resubscribed ----------- *)
Lemma nth_fresh (cs : list aconn) : nth (length cs) (cs ++ [aconn0]) aconn0 = aconn0.
Proof. rewrite app_nth2 by lia. rewrite Nat.sub_diag. reflexivity. Qed.

(* the broker's OP_INFO arriving on a connection that has received nothing yet *)
Lemma getc_modk k f s : (k < length (conns s))%nat -> getc (modk k f s) k = f (getc s k).
Proof. intros H. unfold getc. cbn. apply nth_upd_same. exact H. Qed.
Lemma drainc_ready f k s0 op body rest : next limitP (cbuf (getc s0 k)) = Ready op body rest ->
  drainc ident secret (S f) k s0 =
  let '(s1, exn) := on_frame ident secret k op body (setbuf k rest s0) in
  if exn then (s1, true) else drainc ident secret f k s1.
Proof. intros H. cbn [drainc]. rewrite H. reflexivity. Qed.
Lemma drainc_needmore f k s0 : next limitP (cbuf (getc s0 k)) = NeedMore -> drainc ident secret f k s0 = (s0, false).
Proof. intros H. destruct f; [reflexivity|]. cbn [drainc]. rewrite H. reflexivity. Qed.

Definition after_info (k : nat) (rand : bytes) (s : asess) : asess :=
  let s2 := modk k (authpush rand) s in
  fold_left (fun st t => wrk ident secret k (FSub t) st) (wanted s2)
    (mkas (wanted s2) (pc s2) (Some k) (tr s2) (conns s2) (closing s2) (wc_done s2) (wcl_done s2)
          (queue s2) (delivered s2) (waiting s2) (recvd s2) (attempts s2) (pend s2) (outcome s2)
          (cancel_req s2) (cst s2) (ready s2) (raised s2)).
Definition set_wc (s3 : asess) : asess :=
  mkas (wanted s3) (pc s3) (cur s3) (tr s3) (conns s3) (closing s3) true (wcl_done s3)
       (queue s3) (delivered s3) (waiting s3) (recvd s3) (attempts s3) (pend s3) (outcome s3)
       (cancel_req s3) (cst s3) (ready s3) (raised s3).
Lemma wc_after_info k rand s : wc_done (after_info k rand s) = wc_done s.
Proof.
  unfold after_info.
  match goal with |- context [fold_left ?F ?L ?S0] => destruct (burst_fold ident secret ident_fits k L S0) as (_ & _ & _ & E4) end.
  rewrite E4. reflexivity.
Qed.
Lemma on_frame_info k body name rand a s :
  readinfo body = Some (name, rand) -> msgauth rand ident secret = Some a -> wc_done s = false ->
  on_frame ident secret k 1 body s = (set_wc (after_info k rand s), false).
Proof.
  intros Hr Ha Hw. unfold on_frame. replace (1 =? 1)%Z with true by reflexivity. rewrite Hr, Ha.
  change ((if wc_done (after_info k rand s) then (after_info k rand s, true) else (set_wc (after_info k rand s), false))
          = (set_wc (after_info k rand s), false)).
  rewrite wc_after_info, Hw. reflexivity.
Qed.

(* the fields of the state after the handshake *)
Definition misc (s : asess) := (raised s, tr s, cst s, closing s).
Lemma wrk_misc k f s : misc (wrk ident secret k f s) = misc s.
Proof. unfold wrk. destruct (render ident secret f); reflexivity. Qed.
Lemma fold_wrk_misc k l : forall s, misc (fold_left (fun st t => wrk ident secret k (FSub t) st) l s) = misc s.
Proof. induction l as [|t l IH]; intros s; cbn [fold_left]; [reflexivity|]. rewrite IH. apply wrk_misc. Qed.
Lemma after_info_fields k rand s : (k < length (conns s))%nat ->
  let s3 := after_info k rand s in
  conns s3 = upd_conn k (fun c => pushl (map FSub (wanted s)) (authpush rand c)) (conns s) /\
  cur s3 = Some k /\ wanted s3 = wanted s /\ fa s3 = fa s /\ raised s3 = raised s /\ tr s3 = tr s /\ cst s3 = cst s /\
  closing s3 = closing s.
Proof.
  intros Hk. cbv zeta. unfold after_info.
  match goal with |- context [fold_left ?F ?L ?S0] => destruct (burst_fold ident secret ident_fits k L S0) as (E1 & E2 & E3 & _);
    pose proof (fold_wrk_fa k L S0) as E5; pose proof (fold_wrk_misc k L S0) as E6; set (s3 := fold_left F L S0) in * end.
  clearbody s3. cbn in E1, E2, E3, E5. unfold misc in E6. cbn in E6. rewrite upd_conn_comp in E1. injection E6. intros -> -> -> ->.
  repeat split; assumption.
Qed.

Lemma data_info s k name nonce :
  wf_str name -> (zlen nonce <= 20)%Z -> (k < length (conns s))%nat ->
  cbuf (getc s k) = [] -> cclosing (getc s k) = false -> clost (getc s k) = false -> wc_done s = false ->
  exists fr, msginfo name nonce = Some fr /\
    let s' := do_data ident secret k fr s in
    cur s' = Some k /\ wc_done s' = true /\ raised s' = raised s /\ wanted s' = wanted s /\
    cout (getc s' k) = rev (map FSub (wanted s)) ++ FAuth nonce :: cout (getc s k) /\
    fa s' = fa s /\ tr s' = tr s /\ cst s' = cst s /\ closing s' = closing s.
Proof.
  intros [Hv Hn] Hr Hk Hb Hc Hl Hw.
  set (body := zb (zlen name) :: name ++ nonce).
  exists (hdr 1 body). split; [unfold msginfo; rewrite (strpack8_some _ Hn); reflexivity|].
  assert (Hnext : next limitP (hdr 1 body) = Ready 1 body []).
  { pose proof (next_hdr limitP 1 body [] ltac:(lia)) as X. rewrite app_nil_r in X. apply X.
    - unfold body. rewrite zlen_cons, zlen_app. pose proof limit_info_ok. lia.
    - unfold body. rewrite zlen_cons, zlen_app. lia. }
  assert (Hread : readinfo body = Some (name, nonce)).
  { unfold readinfo, body. apply (strunpack8_strpack8 name (zb (zlen name) :: name) nonce Hv). apply strpack8_some. exact Hn. }
  assert (Hauth : exists a, msgauth nonce ident secret = Some a).
  { unfold msgauth, msgauth_digest, strpack8. destruct (zlen ident <=? 255)%Z eqn:E; [eexists; reflexivity|lia]. }
  destruct Hauth as [a Ha].
  cbv zeta. unfold do_data. pose proof Hk as Hk'. apply Nat.ltb_lt in Hk'. rewrite Hk', Hc, Hl. cbn [andb negb]. rewrite Hb. cbn [app].
  set (s0 := setbuf k (hdr 1 body) s).
  assert (G0 : cbuf (getc s0 k) = hdr 1 body) by (unfold s0, setbuf; rewrite getc_modk by exact Hk; reflexivity).
  rewrite G0. rewrite (drainc_ready _ k s0 1 body [] (eq_trans (f_equal (next limitP) G0) Hnext)).
  set (s1 := setbuf k [] s0).
  assert (Hk1 : (k < length (conns s1))%nat) by (unfold s1, s0, setbuf; cbn; rewrite !upd_conn_length; exact Hk).
  assert (Hw1 : wc_done s1 = false) by exact Hw.
  rewrite (on_frame_info k body name nonce a s1 Hread Ha Hw1).
  destruct (after_info_fields k nonce s1 Hk1) as (E1 & E2 & E3 & E5 & E6 & E7 & E8 & E9).
  set (s3 := after_info k nonce s1) in *. clearbody s3.
  assert (Gc : getc (set_wc s3) k = pushl (map FSub (wanted s)) (authpush nonce (getc s1 k))).
  { unfold getc. cbn [set_wc conns]. rewrite E1. rewrite nth_upd_same by exact Hk1. reflexivity. }
  assert (G1 : getc s1 k = mkac [] (cout (getc s k)) (cclosing (getc s k)) (clost (getc s k)) (caborted (getc s k)) (cnonce (getc s k))).
  { unfold s1, s0, setbuf. rewrite getc_modk by (cbn; rewrite upd_conn_length; exact Hk). rewrite getc_modk by exact Hk. reflexivity. }
  assert (Gb : cbuf (getc (set_wc s3) k) = []).
  { rewrite Gc. destruct (pushl_fields (map FSub (wanted s)) (authpush nonce (getc s1 k))) as (_ & _ & X & _). rewrite X, G1. reflexivity. }
  rewrite (drainc_needmore _ k (set_wc s3)) by (rewrite Gb; reflexivity).
  cbn [set_wc cur wc_done raised wanted fa pc pend attempts tr cst closing].
  rewrite E2, E3, E6, E7, E8, E9.
  assert (Efa : fa (set_wc s3) = fa s) by (change (fa s3 = fa s); rewrite E5; reflexivity).
  assert (Eout : cout (getc (set_wc s3) k) = rev (map FSub (wanted s)) ++ FAuth nonce :: cout (getc s k)).
  { rewrite Gc. destruct (pushl_fields (map FSub (wanted s)) (authpush nonce (getc s1 k))) as (X & _). rewrite X, G1. reflexivity. }
  split; [reflexivity|]. split; [reflexivity|]. split; [reflexivity|]. split; [reflexivity|]. split; [exact Eout|].
  split; [exact Efa|]. split; [reflexivity|]. split; reflexivity.
Qed.

(* the phase every recovery path passes through: one create_connection call is outstanding *)
Definition connecting (s : asess) : Prop :=
  pc s = PConnecting /\ pend s = true /\ outcome s = None /\ ready s = [] /\ cancel_req s = false /\
  wc_done s = false /\ cur s = None /\ closing s = false.
(* "authenticated on a fresh connection k with this nonce and resubscribed to everything wanted" *)
Definition ready_on (s : asess) (k : nat) (nonce : bytes) (w : list bytes) : Prop :=
  cur s = Some k /\ tr s = Some k /\ wc_done s = true /\ pc s = PWaitClosed /\
  cout (getc s k) = rev (map FSub w) ++ [FAuth nonce].

Lemma recover_from_connecting s name nonce : connecting s -> wf_str name -> (zlen nonce <= 20)%Z ->
  exists fr, msginfo name nonce = Some fr /\
    let k := length (conns s) in
    let s' := astep (astep s AOk) (AData k fr) in
    ready_on s' k nonce (wanted s) /\ attempts s' = attempts s /\ raised s' = raised s.
Proof.
  intros (Hp & Hpe & Ho & Hr & Hx & Hw & Hc & Hcl) Hname Hnonce.
  set (s1 := astep s AOk).
  assert (F1 : pc s1 = PWaitClosed /\ tr s1 = Some (length (conns s)) /\ conns s1 = conns s ++ [aconn0] /\ wc_done s1 = false /\
               wanted s1 = wanted s /\ attempts s1 = attempts s /\ raised s1 = raised s /\ cur s1 = None).
  { unfold s1. destruct s as [w p cu t cs cl wc wcl q dl wt rc at_ pe oc cr cst_ rd ra].
    cbn in Hp, Hpe, Ho, Hr, Hx, Hw, Hc, Hcl. subst. cbn -[Nat.min]. repeat split; reflexivity. }
  destruct F1 as (G1 & G2 & G3 & G4 & G5 & G6 & G7 & G8).
  assert (Hk : (length (conns s) < length (conns s1))%nat) by (rewrite G3, app_length; cbn; lia).
  assert (Hg : getc s1 (length (conns s)) = aconn0) by (unfold getc; rewrite G3; apply nth_fresh).
  destruct (data_info s1 (length (conns s)) name nonce Hname Hnonce Hk) as (fr & Efr & D); try (rewrite Hg; reflexivity); [exact G4|].
  exists fr. split; [exact Efr|]. cbv zeta in *. fold s1. cbn [AioSession.astep].
  destruct D as (D1 & D2 & D3 & D4 & D5 & D6 & D7 & _). unfold ready_on.
  rewrite D1, D2, D3, D5, D7, G2, G5, G7, Hg. cbn [cout aconn0].
  unfold fa in D6. injection D6. intros -> _ ->. rewrite G1, G6. repeat split; reflexivity.
Qed.

(* after the transport reported the loss (reconnect task not yet resumed): one loop turn, then as above *)
Theorem recovers_after_loss s name nonce :
  pc s = PWaitClosed -> tr s = None -> wcl_done s = true -> ready s = [TR] -> closing s = false -> cancel_req s = false ->
  wf_str name -> (zlen nonce <= 20)%Z ->
  exists fr, msginfo name nonce = Some fr /\
    let k := length (conns s) in
    let s' := astep (astep (astep s AIdle) AOk) (AData k fr) in
    ready_on s' k nonce (wanted s) /\ attempts s' = S (attempts s).
Proof.
  intros Hp Ht Hw Hr Hc Hx Hname Hnonce.
  set (s1 := astep s AIdle).
  assert (F : connecting s1 /\ conns s1 = conns s /\ wanted s1 = wanted s /\ attempts s1 = S (attempts s)).
  { unfold s1, connecting. destruct s as [w p cu t cs cl wc wcl q dl wt rc at_ pe oc cr cst_ rd ra].
    cbn in Hp, Ht, Hw, Hr, Hc, Hx. subst. cbn -[Nat.min]. repeat split; reflexivity. }
  destruct F as (F1 & F2 & F3 & F4).
  destruct (recover_from_connecting s1 name nonce F1 Hname Hnonce) as (fr & Efr & R1 & R2 & _).
  exists fr. split; [exact Efr|]. cbv zeta in *. fold s1. rewrite <- F2, <- F3, <- F4. split; [exact R1|exact R2].
Qed.
(* a refused connection: after the one-second back-off, try again *)
Theorem recovers_after_refusal s name nonce :
  pc s = PBackoff 1 -> ready s = [] -> closing s = false -> cancel_req s = false -> wc_done s = false -> cur s = None ->
  wf_str name -> (zlen nonce <= 20)%Z ->
  exists fr, msginfo name nonce = Some fr /\
    let k := length (conns s) in
    let s' := astep (astep (astep s (AAdv 1)) AOk) (AData k fr) in
    ready_on s' k nonce (wanted s) /\ attempts s' = S (attempts s).
Proof.
  intros Hp Hr Hc Hx Hw Hcu Hname Hnonce.
  set (s1 := astep s (AAdv 1)).
  assert (F : connecting s1 /\ conns s1 = conns s /\ wanted s1 = wanted s /\ attempts s1 = S (attempts s)).
  { unfold s1, connecting. destruct s as [w p cu t cs cl wc wcl q dl wt rc at_ pe oc cr cst_ rd ra].
    cbn in Hp, Hr, Hc, Hx, Hw, Hcu. subst. cbn -[Nat.min]. repeat split; reflexivity. }
  destruct F as (F1 & F2 & F3 & F4).
  destruct (recover_from_connecting s1 name nonce F1 Hname Hnonce) as (fr & Efr & R1 & R2 & _).
  exists fr. split; [exact Efr|]. cbv zeta in *. fold s1. rewrite <- F2, <- F3, <- F4. split; [exact R1|exact R2].
Qed.
(* a live connection (before or after OP_INFO, mid-frame or not) is lost *)
Theorem recovers_from_connected s k name nonce :
  pc s = PWaitClosed -> tr s = Some k -> wcl_done s = false -> ready s = [] -> closing s = false -> cancel_req s = false ->
  cst s = CNone -> (k < length (conns s))%nat -> clost (getc s k) = false ->
  wf_str name -> (zlen nonce <= 20)%Z ->
  exists fr, msginfo name nonce = Some fr /\
    let k' := length (conns s) in
    let s' := astep (astep (astep (astep s (ALost k)) AIdle) AOk) (AData k' fr) in
    ready_on s' k' nonce (wanted s) /\ attempts s' = S (attempts s).
Proof.
  intros Hp Ht Hw Hr Hc Hx Hcs Hk Hl Hname Hnonce.
  set (s1 := astep s (ALost k)).
  assert (F : pc s1 = PWaitClosed /\ tr s1 = None /\ wcl_done s1 = true /\ ready s1 = [TR] /\ closing s1 = false /\ cancel_req s1 = false /\
              length (conns s1) = length (conns s) /\ wanted s1 = wanted s /\ attempts s1 = attempts s).
  { unfold s1. cbn [AioSession.astep]. unfold do_lost. apply Nat.ltb_lt in Hk. rewrite Hk, Hl. cbn [andb negb].
    destruct s as [w p cu t cs cl wc wcl q dl wt rc at_ pe oc cr cst_ rd ra].
    cbn in Hp, Ht, Hw, Hr, Hc, Hx, Hcs. subst. cbn. rewrite upd_conn_length. repeat split; reflexivity. }
  destruct F as (F1 & F2 & F3 & F4 & F5 & F6 & F7 & F8 & F9).
  destruct (recovers_after_loss s1 name nonce F1 F2 F3 F4 F5 F6 Hname Hnonce) as (fr & Efr & R1 & R2).
  exists fr. split; [exact Efr|]. cbv zeta in *. fold s1. rewrite <- F7, <- F8, <- F9. split; [exact R1|exact R2].
Qed.

(* non-vacuity: concrete histories reach each of the phases the theorems start from *)
Example phases_reachable :
  let s_loss := arun [AIdle; AOk; ALost 0] in
  let s_refused := arun [AIdle; ARefuse] in
  let s_conn := arun [AIdle; AOk] in
  (pc s_loss = PWaitClosed /\ tr s_loss = None /\ wcl_done s_loss = true /\ ready s_loss = [TR] /\ closing s_loss = false /\ cancel_req s_loss = false) /\
  (pc s_refused = PBackoff 1 /\ ready s_refused = [] /\ closing s_refused = false /\ cancel_req s_refused = false /\ wc_done s_refused = false /\ cur s_refused = None) /\
  (pc s_conn = PWaitClosed /\ tr s_conn = Some 0%nat /\ wcl_done s_conn = false /\ ready s_conn = [] /\ cst s_conn = CNone /\ clost (getc s_conn 0) = false) /\
  connecting (arun [AIdle]).
Proof. cbv zeta. unfold connecting. cbn. repeat split; reflexivity. Qed.

End AC.
