(* ClientProto.v — C16: the asyncio, blocking and Twisted client protocol classes as three dispatchers
   (hpfeeds/asyncio/protocol.py, hpfeeds/blocking/protocol.py, hpfeeds/twisted/protocol.py: BaseProtocol +
   ClientProtocol), each producing the log a recording subclass sees. *)
From Coq Require Import ZArith List Bool Lia.
From Coq Require Import Strings.Byte.
From HP Require Import Bytes Utf8 Sha1 Wire WireFacts ParamsOK.
Import ListNotations.
Open Scope Z_scope.

Inductive cev :=
| HInfo (name rand : bytes) | HError (e : bytes) | HPublish (i c d : bytes)
| HAuth (i dg : bytes) | HSubscribe (i c : bytes) | HUnsubscribe (i c : bytes)
| Write (b : bytes) | ConnReady | ProtoError | Close | Raised.

Section Proto.
Variable ident secret : bytes.

(* ---- hpfeeds/asyncio/protocol.py ------------------------------------------------------------------- *)
(* message_received: the events it causes, whether an exception escaped, and its (truthy?) return value *)
Definition aio_message (op : Z) (body : bytes) : list cev * bool * bool :=
  if op =? 0 then match readerror body with Some e => ([HError e], false, false) | None => ([], true, false) end
  else if op =? 1 then
    match readinfo body with
    | Some (n, r) => match msgauth r ident secret with
                     | Some f => ([HInfo n r; Write f; ConnReady], false, false)      (* self.auth(...); connection_ready() *)
                     | None => ([HInfo n r], true, false) end
    | None => ([], true, false) end
  else if op =? 2 then
    match readauth body with Some (i, d) => ([HAuth i d; ProtoError; Close], false, false) | None => ([], true, false) end
  else if op =? 3 then
    match readpublish body with Some (i, c, d) => ([HPublish i c d], false, false) | None => ([], true, false) end
  else if op =? 4 then
    match readsubscribe body with Some (i, c) => ([HSubscribe i c; ProtoError; Close], false, false) | None => ([], true, false) end
  else if op =? 5 then
    match readunsubscribe body with Some (i, c) => ([HUnsubscribe i c; ProtoError; Close], false, false) | None => ([], true, false) end
  else ([ProtoError; Close], false, true).       (* unknown opcode: protocol_error; close; return True *)
(* process_pending: for opcode, data in self.unpacker: if self.message_received(...): break
   except ProtocolException: protocol_error; close *)
Fixpoint aio_pending (fuel : nat) (buf : bytes) : list cev * bytes :=
  match fuel with
  | O => ([], buf)
  | S f =>
      match next limitP buf with
      | NeedMore => ([], buf)
      | Bad _ => ([ProtoError; Close], buf)
      | Ready op body rest =>
          let '(evs, raised, brk) := aio_message op body in
          if raised then (evs ++ [Raised], rest)
          else if brk then (evs, rest)
          else let '(evs', buf') := aio_pending f rest in (evs ++ evs', buf')
      end
  end.
Definition aio_data (buf chunk : bytes) : list cev * bytes :=
  aio_pending (S (length (buf ++ chunk))) (buf ++ chunk).

(* ---- hpfeeds/blocking/protocol.py ------------------------------------------------------------------ *)
Definition blk_message (op : Z) (body : bytes) : list cev * bool :=
  if op =? 0 then match readerror body with Some e => ([HError e], false) | None => ([], true) end
  else if op =? 1 then
    match readinfo body with
    | Some (n, r) => match msgauth r ident secret with
                     | Some f => ([HInfo n r; Write f; ConnReady], false)      (* transport.write(msgauth(...)); connection_ready() *)
                     | None => ([HInfo n r], true) end
    | None => ([], true) end
  else if op =? 2 then
    match readauth body with Some (i, d) => ([HAuth i d; ProtoError; Close], false) | None => ([], true) end
  else if op =? 3 then
    match readpublish body with Some (i, c, d) => ([HPublish i c d], false) | None => ([], true) end
  else if op =? 4 then
    match readsubscribe body with Some (i, c) => ([HSubscribe i c; ProtoError; Close], false) | None => ([], true) end
  else if op =? 5 then
    match readunsubscribe body with Some (i, c) => ([HUnsubscribe i c; ProtoError; Close], false) | None => ([], true) end
  else ([ProtoError; Close], false).
(* data_received: try: for opcode, data in self.unpacker: self.message_received(...) except ProtocolException *)
Fixpoint blk_loop (fuel : nat) (buf : bytes) : list cev * bytes :=
  match fuel with
  | O => ([], buf)
  | S f =>
      match next limitP buf with
      | NeedMore => ([], buf)
      | Bad _ => ([ProtoError; Close], buf)
      | Ready op body rest =>
          let '(evs, raised) := blk_message op body in
          if raised then (evs ++ [Raised], rest)
          else let '(evs', buf') := blk_loop f rest in (evs ++ evs', buf')
      end
  end.
Definition blk_data (buf chunk : bytes) : list cev * bytes :=
  blk_loop (S (length (buf ++ chunk))) (buf ++ chunk).

(* ---- hpfeeds/twisted/protocol.py --------------------------------------------------------------------- *)
Definition tw_message (op : Z) (body : bytes) : list cev * bool :=
  if op =? 0 then match readerror body with Some e => ([HError e], false) | None => ([], true) end
  else if op =? 1 then
    match readinfo body with
    | Some (n, r) => match msgauth r ident secret with
                     | Some f => ([HInfo n r; Write f; ConnReady], false)      (* self.auth(rand, factory.ident, factory.secret); connectionReady() *)
                     | None => ([HInfo n r], true) end
    | None => ([], true) end
  else if op =? 2 then
    match readauth body with Some (i, d) => ([HAuth i d; ProtoError; Close], false) | None => ([], true) end
  else if op =? 3 then
    match readpublish body with Some (i, c, d) => ([HPublish i c d], false) | None => ([], true) end
  else if op =? 4 then
    match readsubscribe body with Some (i, c) => ([HSubscribe i c; ProtoError; Close], false) | None => ([], true) end
  else if op =? 5 then
    match readunsubscribe body with Some (i, c) => ([HUnsubscribe i c; ProtoError; Close], false) | None => ([], true) end
  else ([ProtoError; Close], false).           (* protocolError; transport.loseConnection() *)
Fixpoint tw_loop (fuel : nat) (buf : bytes) : list cev * bytes :=
  match fuel with
  | O => ([], buf)
  | S f =>
      match next limitP buf with
      | NeedMore => ([], buf)
      | Bad _ => ([ProtoError; Close], buf)
      | Ready op body rest =>
          let '(evs, raised) := tw_message op body in
          if raised then (evs ++ [Raised], rest)
          else let '(evs', buf') := tw_loop f rest in (evs ++ evs', buf')
      end
  end.
Definition tw_data (buf chunk : bytes) : list cev * bytes :=
  tw_loop (S (length (buf ++ chunk))) (buf ++ chunk).

(* a whole connection: chunks fed one by one; the log and the buffer *)
Definition feed_with (data : bytes -> bytes -> list cev * bytes) (st : list cev * bytes) (chunk : bytes) : list cev * bytes :=
  let '(log, buf) := st in let '(evs, buf') := data buf chunk in (log ++ evs, buf').
Definition run_with (data : bytes -> bytes -> list cev * bytes) (chunks : list bytes) : list cev * bytes :=
  fold_left (feed_with data) chunks ([], []).

(* ---- C16 ------------------------------------------------------------------------------------------- *)
Lemma aio_blk_message op body : 0 <= op <= 5 ->
  aio_message op body = (fst (blk_message op body), snd (blk_message op body), false).
Proof.
  intros H. unfold aio_message, blk_message.
  repeat match goal with
  | |- context [?a =? ?b] => destruct (Z.eqb_spec a b)
  | |- context [match ?x with Some _ => _ | None => _ end] => destruct x as [[? ?]|]
  | |- context [match ?x with Some _ => _ | None => _ end] => destruct x
  | |- context [let '(_, _) := ?p in _] => destruct p
  end; try reflexivity; lia.
Qed.
Lemma blk_tw_message op body : blk_message op body = tw_message op body.
Proof. reflexivity. Qed.

Lemma next_op_range buf op body rest : next limitP buf = Ready op body rest -> 0 <= op <= 5.
Proof. intros H. apply next_ready_inv in H. tauto. Qed.

Lemma aio_blk_loop fuel : forall buf, aio_pending fuel buf = blk_loop fuel buf.
Proof.
  induction fuel as [|f IH]; intros buf; [reflexivity|]. cbn [aio_pending blk_loop].
  destruct (next limitP buf) as [|c|op body rest] eqn:E; try reflexivity.
  rewrite (aio_blk_message op body (next_op_range _ _ _ _ E)).
  destruct (blk_message op body) as [evs raised]. cbn [fst snd].
  destruct raised; [reflexivity|]. rewrite IH. reflexivity.
Qed.
Lemma blk_tw_loop fuel : forall buf, blk_loop fuel buf = tw_loop fuel buf.
Proof. intros buf. reflexivity. Qed.   (* the two files are the same program: the terms are convertible *)

(* for every byte stream and every chunking the three classes produce the same log (handler calls with
   their arguments, bytes written, protocol errors, closes, escaping exceptions) and keep the same buffer *)
Theorem three_equal chunks : run_with aio_data chunks = run_with blk_data chunks /\ run_with blk_data chunks = run_with tw_data chunks.
Proof.
  assert (A : forall b c, aio_data b c = blk_data b c) by (intros; unfold aio_data, blk_data; apply aio_blk_loop).
  assert (T : forall b c, blk_data b c = tw_data b c) by (intros; unfold blk_data, tw_data; apply blk_tw_loop).
  unfold run_with. generalize (@nil cev, @nil byte). induction chunks as [|ch t IH]; intros st; cbn; [auto|].
  assert (E1 : feed_with aio_data st ch = feed_with blk_data st ch) by (unfold feed_with; destruct st; rewrite A; reflexivity).
  assert (E2 : feed_with blk_data st ch = feed_with tw_data st ch) by (unfold feed_with; destruct st; rewrite T; reflexivity).
  rewrite E1, <- E2. apply IH.
Qed.

(* which inputs drop the connection: exactly a decoder rejection or one of the broker-only opcodes *)
Theorem drop_iff op body evs : 0 <= op <= 5 -> blk_message op body = (evs, false) ->
  (In Close evs <-> (op = 2 \/ op = 4 \/ op = 5)).
Proof.
  intros H. unfold blk_message.
  repeat match goal with
  | |- context [?a =? ?b] => destruct (Z.eqb_spec a b)
  | |- context [match ?x with Some _ => _ | None => _ end] => destruct x as [[? ?]|]
  | |- context [match ?x with Some _ => _ | None => _ end] => destruct x
  | |- context [let '(_, _) := ?p in _] => destruct p
  end; intros E; inversion E; subst; cbn; split; intros; try lia; intuition (try discriminate; try lia).
Qed.
End Proto.
