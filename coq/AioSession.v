(* AioSession.v — executable model of hpfeeds/asyncio/client.py (ClientSession + _Protocol) on top of the
   stream decoder, at the granularity of the harness: protocol callbacks and application calls are
   immediate; coroutines (the reconnect task, close(), read()) advance only when the event loop runs
   (events AIdle / AOk / ARefuse / AAdv, which all end with "run the loop until idle").

   ready : the tasks asyncio has scheduled to run, in the order they became ready. *)
From Coq Require Import ZArith List Bool Arith.
From Coq Require Import Strings.Byte.
From HP Require Import Bytes Utf8 Sha1 Wire ParamsOK.
Import ListNotations.
Open Scope Z_scope.

Definition msg := (bytes * bytes * bytes)%type.
(* what the client writes: OP_AUTH answering a nonce, OP_SUBSCRIBE / OP_UNSUBSCRIBE / OP_PUBLISH on a topic *)
Inductive cfr := FAuth (rand : bytes) | FSub (c : bytes) | FUnsub (c : bytes) | FPubl (c d : bytes).
Record aconn := mkac { cbuf : bytes; cout : list cfr; cclosing : bool; clost : bool; caborted : bool;
                       cnonce : option bytes }.      (* cnonce: ghost, the nonce of the first OP_INFO seen *)
Definition aconn0 : aconn := mkac [] [] false false false None.
Inductive apc := PNotStarted | PConnecting | PBackoff (secs : nat) | PWaitClosed | PDone.
Inductive cstate := CNone | CQueued | CWaiting | CDone.
Inductive task := TR | TC.

Record asess := mkas {
  wanted : list bytes;       (* session.subscriptions *)
  pc : apc;                  (* where the reconnect task is parked *)
  cur : option nat;          (* session.protocol *)
  tr : option nat;           (* session.transport *)
  conns : list aconn;        (* connections established so far, oldest first *)
  closing : bool;
  wc_done : bool;            (* when_connected.done() *)
  wcl_done : bool;           (* when_closed.done() *)
  queue : list msg; delivered : list msg; waiting : nat;
  recvd : list msg;          (* ghost: every PUBLISH handed to on_publish, oldest first *)
  attempts : nat; pend : bool;   (* create_connection calls so far; one still unresolved *)
  outcome : option bool;     (* how the unresolved attempt was resolved: Some true = connected *)
  cancel_req : bool;         (* Task.cancel() called on the reconnect task *)
  cst : cstate;
  ready : list task;
  raised : nat               (* exceptions that escaped a callback *)
}.
Definition asess0 : asess :=
  mkas [] PNotStarted None None [] false false false [] [] 0 [] 0 false None false CNone [TR] 0.

Section Aio.
Variable ident secret : bytes.

(* ---- record updates ---------------------------------------------------------------------------------- *)
Fixpoint upd_conn (k : nat) (f : aconn -> aconn) (l : list aconn) : list aconn :=
  match l, k with
  | [], _ => []
  | c :: t, O => f c :: t
  | c :: t, S k' => c :: upd_conn k' f t
  end.
Definition getc (s : asess) (k : nat) : aconn := nth k (conns s) aconn0.
Definition setconns (c : list aconn) (s : asess) : asess :=
  mkas (wanted s) (pc s) (cur s) (tr s) c (closing s) (wc_done s) (wcl_done s) (queue s) (delivered s) (waiting s)
       (recvd s) (attempts s) (pend s) (outcome s) (cancel_req s) (cst s) (ready s) (raised s).
Definition modk (k : nat) (f : aconn -> aconn) (s : asess) : asess := setconns (upd_conn k f (conns s)) s.
(* the bytes of a frame (None: struct.pack refuses a field longer than 255 bytes) *)
Definition render (f : cfr) : option bytes :=
  match f with
  | FAuth r => msgauth r ident secret
  | FSub c => msgsubscribe ident c
  | FUnsub c => msgunsubscribe ident c
  | FPubl c d => msgpublish ident c d
  end.
(* a call of transport.write on connection k (newest first); whether the bytes still leave the host is the
   transport's business: cout is what the client SENT *)
Definition wrk (k : nat) (f : cfr) (s : asess) : asess :=
  match render f with
  | None => s
  | Some _ => modk k (fun c => mkac (cbuf c) (f :: cout c) (cclosing c) (clost c) (caborted c) (cnonce c)) s
  end.
Definition closek (k : nat) (s : asess) : asess :=
  modk k (fun c => mkac (cbuf c) (cout c) true (clost c) (caborted c) (cnonce c)) s.
Definition memb (c : bytes) (l : list bytes) : bool := existsb (bytes_eqb c) l.
Fixpoint rmb (c : bytes) (l : list bytes) : list bytes :=
  match l with [] => [] | y :: t => if bytes_eqb y c then t else y :: rmb c t end.
Definition enq (t : task) (l : list task) : list task :=
  if existsb (fun x => match x, t with TR, TR | TC, TC => true | _, _ => false end) l then l else l ++ [t].

(* ---- _Protocol callbacks ------------------------------------------------------------------------------- *)
(* one decoded frame; returns the state and whether an exception escaped *)
Definition on_frame (k : nat) (op : Z) (body : bytes) (s : asess) : asess * bool :=
  if op =? 1 then
    match readinfo body with
    | None => (s, true)
    | Some (_, rand) =>
        match msgauth rand ident secret with
        | None => (s, true)
        | Some a =>
            (* self.auth(rand, ident, secret) *)
            let s2 := modk k (fun c => mkac (cbuf c) (FAuth rand :: cout c) (cclosing c) (clost c) (caborted c)
                                             (match cnonce c with None => Some rand | n => n end)) s in
            (* connection_ready: client.protocol = self; subscribe to every wanted topic; when_connected.set_result *)
            let s3 := fold_left (fun st t => wrk k (FSub t) st) (wanted s2)
                        (mkas (wanted s2) (pc s2) (Some k) (tr s2) (conns s2) (closing s2) (wc_done s2) (wcl_done s2)
                              (queue s2) (delivered s2) (waiting s2) (recvd s2) (attempts s2) (pend s2) (outcome s2)
                              (cancel_req s2) (cst s2) (ready s2) (raised s2)) in
            if wc_done s3 then (s3, true)                                     (* InvalidStateError *)
            else (mkas (wanted s3) (pc s3) (cur s3) (tr s3) (conns s3) (closing s3) true (wcl_done s3)
                       (queue s3) (delivered s3) (waiting s3) (recvd s3) (attempts s3) (pend s3) (outcome s3)
                       (cancel_req s3) (cst s3) (ready s3) (raised s3), false)
        end
    end
  else if op =? 3 then
    match readpublish body with
    | None => (s, true)
    | Some m => (mkas (wanted s) (pc s) (cur s) (tr s) (conns s) (closing s) (wc_done s) (wcl_done s)
                      (queue s ++ [m]) (delivered s) (waiting s) (recvd s ++ [m]) (attempts s) (pend s) (outcome s)
                      (cancel_req s) (cst s) (ready s) (raised s), false)       (* read_queue.put_nowait *)
    end
  else if op =? 0 then (s, true)                                               (* on_error: NotImplementedError (or the reader raises) *)
  else if op =? 2 then match readauth body with None => (s, true) | Some _ => (closek k s, false) end
  else if op =? 4 then match readsubscribe body with None => (s, true) | Some _ => (closek k s, false) end
  else if op =? 5 then match readunsubscribe body with None => (s, true) | Some _ => (closek k s, false) end
  else (closek k s, false).
Definition setbuf (k : nat) (b : bytes) (s : asess) : asess :=
  modk k (fun c => mkac b (cout c) (cclosing c) (clost c) (caborted c) (cnonce c)) s.
Fixpoint drainc (fuel : nat) (k : nat) (s : asess) : asess * bool :=
  match fuel with
  | O => (s, false)
  | S f =>
      match next limitP (cbuf (getc s k)) with
      | NeedMore => (s, false)
      | Bad _ => (closek k s, false)
      | Ready op body rest =>
          let '(s1, exn) := on_frame k op body (setbuf k rest s) in
          if exn then (s1, true) else drainc f k s1
      end
  end.
Definition bump (s : asess) : asess :=
  mkas (wanted s) (pc s) (cur s) (tr s) (conns s) (closing s) (wc_done s) (wcl_done s) (queue s) (delivered s) (waiting s)
       (recvd s) (attempts s) (pend s) (outcome s) (cancel_req s) (cst s) (ready s) (S (raised s)).
Definition do_data (k : nat) (chunk : bytes) (s : asess) : asess :=
  let c := getc s k in
  if (k <? length (conns s))%nat && negb (cclosing c) && negb (clost c) then
    let s0 := setbuf k (cbuf c ++ chunk) s in
    let '(s1, exn) := drainc (S (length (cbuf (getc s0 k)))) k s0 in
    if exn then bump (modk k (fun c => mkac (cbuf c) (cout c) true (clost c) true (cnonce c)) s1) else s1
  else s.
(* connection_lost *)
Definition do_lost (k : nat) (s : asess) : asess :=
  let c := getc s k in
  if (k <? length (conns s))%nat && negb (clost c) then
    let s1 := modk k (fun c => mkac (cbuf c) (cout c) true true (caborted c) (cnonce c)) s in
    if wcl_done s1 then   (* when_closed.set_result on a finished future: InvalidStateError (transport cleared first) *)
      bump (mkas (wanted s1) (pc s1) (cur s1) None (conns s1) (closing s1) (wc_done s1) (wcl_done s1) (queue s1) (delivered s1)
                 (waiting s1) (recvd s1) (attempts s1) (pend s1) (outcome s1) (cancel_req s1) (cst s1) (ready s1) (raised s1))
    else
      let r1 := match pc s1 with PWaitClosed => enq TR (ready s1) | _ => ready s1 end in
      let r2 := match cst s1 with CWaiting => enq TC r1 | _ => r1 end in
      mkas (wanted s1) (pc s1) (cur s1) None (conns s1) (closing s1) (wc_done s1) true (queue s1) (delivered s1)
           (waiting s1) (recvd s1) (attempts s1) (pend s1) (outcome s1) (cancel_req s1) (cst s1) r2 (raised s1)
  else s.

(* ---- application calls --------------------------------------------------------------------------------- *)
Definition setwanted (w : list bytes) (s : asess) : asess :=
  mkas w (pc s) (cur s) (tr s) (conns s) (closing s) (wc_done s) (wcl_done s) (queue s) (delivered s) (waiting s)
       (recvd s) (attempts s) (pend s) (outcome s) (cancel_req s) (cst s) (ready s) (raised s).
Definition do_sub (c : bytes) (s : asess) : asess :=
  if memb c (wanted s) then s else
  let s1 := setwanted (c :: wanted s) s in
  match cur s1 with Some k => wrk k (FSub c) s1 | None => s1 end.
Definition do_unsub (c : bytes) (s : asess) : asess :=
  if memb c (wanted s) then
    let s1 := setwanted (rmb c (wanted s)) s in
    match cur s1 with Some k => wrk k (FUnsub c) s1 | None => s1 end
  else s.
Definition do_pub (c d : bytes) (s : asess) : asess :=
  match cur s with Some k => wrk k (FPubl c d) s | None => s end.
Definition do_read (s : asess) : asess :=
  mkas (wanted s) (pc s) (cur s) (tr s) (conns s) (closing s) (wc_done s) (wcl_done s) (queue s) (delivered s) (S (waiting s))
       (recvd s) (attempts s) (pend s) (outcome s) (cancel_req s) (cst s) (ready s) (raised s).
Definition do_close (s : asess) : asess :=
  match cst s with
  | CNone => mkas (wanted s) (pc s) (cur s) (tr s) (conns s) (closing s) (wc_done s) (wcl_done s) (queue s) (delivered s) (waiting s)
                  (recvd s) (attempts s) (pend s) (outcome s) (cancel_req s) CQueued (enq TC (ready s)) (raised s)
  | _ => s
  end.

(* ---- the event loop runs -------------------------------------------------------------------------------- *)
(* top of "while not self.closing:" in reconnect(), down to the create_connection call *)
Definition loop_top (s : asess) : asess :=
  if closing s then
    mkas (wanted s) PDone (cur s) (tr s) (conns s) (closing s) (wc_done s) (wcl_done s) (queue s) (delivered s) (waiting s)
         (recvd s) (attempts s) (pend s) (outcome s) (cancel_req s) (cst s) (ready s) (raised s)
  else
    mkas (wanted s) PConnecting None (tr s) (conns s) (closing s) (wc_done s) false (queue s) (delivered s) (waiting s)
         (recvd s) (S (attempts s)) true None (cancel_req s) (cst s) (ready s) (raised s).
Definition run_reconnect (s : asess) : asess :=
  if cancel_req s then    (* CancelledError at the await point; a pending create_connection is cancelled with it *)
    match pc s with
    | PDone => s
    | _ => mkas (wanted s) PDone (cur s) (tr s) (conns s) (closing s) (wc_done s) (wcl_done s) (queue s) (delivered s) (waiting s)
                (recvd s) (attempts s) false None false (cst s) (ready s) (raised s)
    end
  else
  match pc s with
  | PNotStarted => loop_top s
  | PConnecting =>
      match outcome s with
      | Some true =>      (* create_connection returned; now "await self.when_closed" *)
          mkas (wanted s) PWaitClosed (cur s) (tr s) (conns s) (closing s) (wc_done s) (wcl_done s) (queue s) (delivered s)
               (waiting s) (recvd s) (attempts s) false None (cancel_req s) (cst s) (ready s) (raised s)
      | Some false =>     (* OSError: "await asyncio.sleep(1)" *)
          mkas (wanted s) (PBackoff 1) (cur s) (tr s) (conns s) (closing s) (wc_done s) (wcl_done s) (queue s) (delivered s)
               (waiting s) (recvd s) (attempts s) false None (cancel_req s) (cst s) (ready s) (raised s)
      | None => s
      end
  | PBackoff _ =>         (* the sleep is over: _tryconnect loops and connects again *)
      mkas (wanted s) PConnecting (cur s) (tr s) (conns s) (closing s) (wc_done s) (wcl_done s) (queue s) (delivered s)
           (waiting s) (recvd s) (S (attempts s)) true None (cancel_req s) (cst s) (ready s) (raised s)
  | PWaitClosed =>        (* when_closed fired: "self.when_connected = asyncio.Future()" and round again *)
      loop_top (mkas (wanted s) (pc s) (cur s) (tr s) (conns s) (closing s) false (wcl_done s) (queue s) (delivered s)
                     (waiting s) (recvd s) (attempts s) (pend s) (outcome s) (cancel_req s) (cst s) (ready s) (raised s))
  | PDone => s
  end.
Definition run_close (s : asess) : asess :=
  match cst s with
  | CQueued =>
      let s1 := mkas (wanted s) (pc s) (cur s) (tr s) (conns s) true (wc_done s) (wcl_done s) (queue s) (delivered s)
                     (waiting s) (recvd s) (attempts s) (pend s) (outcome s) (cancel_req s) (cst s) (ready s) (raised s) in
      match tr s1 with
      | Some k =>       (* self.transport.close(); await self.when_closed *)
          let s2 := closek k s1 in
          mkas (wanted s2) (pc s2) (cur s2) (tr s2) (conns s2) (closing s2) (wc_done s2) (wcl_done s2) (queue s2) (delivered s2)
               (waiting s2) (recvd s2) (attempts s2) (pend s2) (outcome s2) (cancel_req s2) CWaiting (ready s2) (raised s2)
      | None =>         (* self._ensure_connected.cancel() *)
          let live := match pc s1 with PDone => false | _ => true end in
          mkas (wanted s1) (pc s1) (cur s1) (tr s1) (conns s1) (closing s1) (wc_done s1) (wcl_done s1) (queue s1) (delivered s1)
               (waiting s1) (recvd s1) (attempts s1) (pend s1) (outcome s1) live CDone
               (if live then enq TR (ready s1) else ready s1) (raised s1)
      end
  | CWaiting => if wcl_done s then
      mkas (wanted s) (pc s) (cur s) (tr s) (conns s) (closing s) (wc_done s) (wcl_done s) (queue s) (delivered s)
           (waiting s) (recvd s) (attempts s) (pend s) (outcome s) (cancel_req s) CDone (ready s) (raised s) else s
  | _ => s
  end.
(* readers are served in FIFO order from the queue *)
Definition serve_reads (s : asess) : asess :=
  let n := Nat.min (waiting s) (length (queue s)) in
  mkas (wanted s) (pc s) (cur s) (tr s) (conns s) (closing s) (wc_done s) (wcl_done s) (skipn n (queue s))
       (delivered s ++ firstn n (queue s)) (waiting s - n) (recvd s) (attempts s) (pend s) (outcome s) (cancel_req s)
       (cst s) (ready s) (raised s).
Definition pop_ready (s : asess) : asess :=
  mkas (wanted s) (pc s) (cur s) (tr s) (conns s) (closing s) (wc_done s) (wcl_done s) (queue s) (delivered s) (waiting s)
       (recvd s) (attempts s) (pend s) (outcome s) (cancel_req s) (cst s) (tl (ready s)) (raised s).
Fixpoint run_loop (fuel : nat) (s : asess) : asess :=
  match fuel with
  | O => s
  | S f =>
      match ready s with
      | [] => s
      | TR :: _ => run_loop f (run_reconnect (pop_ready s))
      | TC :: _ => run_loop f (run_close (pop_ready s))
      end
  end.
Definition do_idle (s : asess) : asess := serve_reads (run_loop 8 s).

(* the network answers the pending create_connection *)
Definition resolve (ok : bool) (s : asess) : asess :=
  if pend s && match outcome s with None => true | _ => false end then
    let s1 := if ok then
                mkas (wanted s) (pc s) (cur s) (Some (length (conns s))) (conns s ++ [aconn0]) (closing s) (wc_done s) (wcl_done s)
                     (queue s) (delivered s) (waiting s) (recvd s) (attempts s) (pend s) (Some true) (cancel_req s) (cst s)
                     (enq TR (ready s)) (raised s)
              else
                mkas (wanted s) (pc s) (cur s) (tr s) (conns s) (closing s) (wc_done s) (wcl_done s)
                     (queue s) (delivered s) (waiting s) (recvd s) (attempts s) (pend s) (Some false) (cancel_req s) (cst s)
                     (enq TR (ready s)) (raised s) in
    do_idle s1
  else s.
Definition do_adv (n : nat) (s : asess) : asess :=
  let s0 := do_idle s in
  match pc s0 with
  | PBackoff lft =>
      if (lft <=? n)%nat then
        do_idle (mkas (wanted s0) (pc s0) (cur s0) (tr s0) (conns s0) (closing s0) (wc_done s0) (wcl_done s0) (queue s0) (delivered s0)
                      (waiting s0) (recvd s0) (attempts s0) (pend s0) (outcome s0) (cancel_req s0) (cst s0) (enq TR (ready s0)) (raised s0))
      else mkas (wanted s0) (PBackoff (lft - n)) (cur s0) (tr s0) (conns s0) (closing s0) (wc_done s0) (wcl_done s0) (queue s0)
                (delivered s0) (waiting s0) (recvd s0) (attempts s0) (pend s0) (outcome s0) (cancel_req s0) (cst s0) (ready s0) (raised s0)
  | _ => s0
  end.

Inductive aev :=
| AIdle | AOk | ARefuse | AAdv (n : nat)
| AData (k : nat) (chunk : bytes) | ALost (k : nat)
| ASub (c : bytes) | AUnsub (c : bytes) | APub (c d : bytes) | ARead | AClose.
Definition astep (s : asess) (e : aev) : asess :=
  match e with
  | AIdle => do_idle s
  | AOk => resolve true s
  | ARefuse => resolve false s
  | AAdv n => do_adv n s
  | AData k ch => do_data k ch s
  | ALost k => do_lost k s
  | ASub c => do_sub c s
  | AUnsub c => do_unsub c s
  | APub c d => do_pub c d s
  | ARead => do_read s
  | AClose => do_close s
  end.
Definition arun (es : list aev) : asess := fold_left astep es asess0.
End Aio.
