(* BrokerTimer.v — C15 (back-pressure deadline) and C14 (asynchronous credential store) facts. *)
From Coq Require Import ZArith List Bool Arith Lia.
From HP Require Import Bytes Sha1 Wire WireFacts ParamsOK Broker BrokerSpec BrokerLemmas BrokerInv BrokerStep BrokerTrace BrokerEvo BrokerLocal BrokerProps.
Import ListNotations.

(* the deadline bookkeeping of every connection is untouched by anything but PauseW / ResumeW / Tick *)
Definition tw (c : conn) := (timer c, wpaused c).
Definition sametw (s s' : state) : Prop := forall q, tw (conns s' q) = tw (conns s q).
Lemma sametw_refl s : sametw s s. Proof. intros q. reflexivity. Qed.
Lemma sametw_trans a b c : sametw a b -> sametw b c -> sametw a c.
Proof. intros X Y q. rewrite Y, X. reflexivity. Qed.
Lemma modc_sametw q f s : (forall c, tw (f c) = tw c) -> sametw s (modc q f s).
Proof. intros H q'. cbn. unfold upd. destruct (Nat.eqb_spec q' q); subst; auto. Qed.
Lemma wr_sametw q f s : sametw s (wr q f s).
Proof. unfold wr. destruct (_ || _); [apply sametw_refl|]. apply modc_sametw. reflexivity. Qed.
Lemma cl_sametw q s : sametw s (cl q s).
Proof. unfold cl. destruct (closing _); [apply sametw_refl|]. intros q'. cbn. unfold upd. destruct (Nat.eqb_spec q' q); subst; reflexivity. Qed.
Lemma bad_sametw q s : sametw s (bad q s).
Proof. unfold bad. eapply sametw_trans; [apply wr_sametw|apply cl_sametw]. Qed.
Lemma sub_sametw q c s : sametw s (sub q c s).
Proof. unfold sub, sub_raw. intros q'. destruct (memc _ _); cbn; [reflexivity|]. unfold upd. destruct (Nat.eqb_spec q' q); subst; reflexivity. Qed.
Lemma unsub_raw_sametw q c s : sametw s (unsub_raw q c s).
Proof. unfold unsub_raw. destruct (memc _ _); cbn; [|apply sametw_refl]. intros q'. cbn. unfold upd. destruct (Nat.eqb_spec q' q); subst; reflexivity. Qed.
Lemma unsub_sametw q c s : sametw s (unsub q c s).
Proof. unfold unsub. intros q'. cbn. apply unsub_raw_sametw. Qed.
Lemma lostp_sametw q s : sametw s (lostp q s).
Proof.
  unfold lostp. intros q'. cbn. unfold upd.
  assert (X : forall l s0, sametw s0 (fold_left (fun s c => unsub_raw q c s) l s0)).
  { induction l as [|c l IH]; intros s0; cbn; [apply sametw_refl|]. eapply sametw_trans; [apply unsub_raw_sametw|apply IH]. }
  destruct (Nat.eqb_spec q' q); subst; cbn; apply X.
Qed.
Lemma deliver_sametw i c d r dest : sametw (st r) (st (deliver i c d r dest)).
Proof.
  unfold deliver. destruct r as [s|s|s]; cbn; try apply sametw_refl.
  destruct (closing _); [destruct (copen _); cbn; [apply lostp_sametw|apply sametw_refl]|cbn; apply wr_sametw].
Qed.
Lemma publish_sametw p c d s : sametw s (st (publish p c d s)).
Proof.
  unfold publish. assert (X : forall l r, sametw (st r) (st (fold_left (deliver (akl (conns s p)) c d) l r))).
  { induction l as [|x l IH]; intros r; cbn; [apply sametw_refl|]. eapply sametw_trans; [apply deliver_sametw|apply IH]. }
  intros q. rewrite (X _ (Ok _) q). reflexivity.
Qed.

Section Timer.
Variable bname : bytes.
Variable store : ident -> lookup.
Variable async_store : bool.
Notation step := (step bname store async_store).

Definition ktw (k : state -> res) : Prop := forall s, sametw s (st (k s)).
Lemma authenticate_sametw k q i dg l s : ktw k -> sametw s (st (authenticate k q i dg l s)).
Proof.
  intros Hk. unfold authenticate. destruct l as [|r]; [cbn; apply bad_sametw|].
  destruct (bytes_eqb _ _); [|cbn; apply bad_sametw].
  match goal with |- context [k ?X] => assert (E1 : sametw s X) by (intros q'; cbn; unfold upd; destruct (Nat.eqb_spec q' q); subst; reflexivity);
    pose proof (Hk X) as E2; destruct (k X) end; cbn in *; try (eapply sametw_trans; eassumption).
  eapply sametw_trans; [exact E1|]. destruct (pending _); [|exact E2]. eapply sametw_trans; [exact E2|].
  unfold resume_r. destruct (_ || _); [apply sametw_refl|]. apply modc_sametw. reflexivity.
Qed.
Lemma handle_sametw k q op body s : ktw k -> sametw s (st (fst (handle store async_store k q op body s))).
Proof.
  intros Hk. unfold handle. destruct (Z.eqb op 2).
  { destruct (readauth body) as [[i dg]|]; [|cbn; apply sametw_refl].
    unfold on_auth. destruct (negb _); cbn; [apply sametw_refl|]. destruct async_store; cbn.
    - eapply sametw_trans; [apply (modc_sametw q (fun c => set_pending (pending c ++ [(i, dg)]) c)); reflexivity|].
      unfold pause_r. destruct (_ || _); [apply sametw_refl|]. apply modc_sametw. reflexivity.
    - apply authenticate_sametw. exact Hk. }
  destruct (ak _); [|cbn; apply bad_sametw].
  destruct (Z.eqb op 3).
  { destruct (readpublish body) as [[[i3 c3] d3]|]; [|cbn; apply sametw_refl]. cbn. unfold on_publish.
    destruct (ak _); [|cbn; apply bad_sametw].
    destruct (negb _); [cbn; apply bad_sametw|]. destruct (negb _); [cbn; apply bad_sametw|].
    destruct (negb _); [cbn; apply sametw_refl|]. apply publish_sametw. }
  destruct (Z.eqb op 4).
  { destruct (readsubscribe body) as [[i4 c4]|]; [|cbn; apply sametw_refl]. cbn. unfold on_subscribe.
    destruct (negb _); [cbn; apply bad_sametw|]. destruct (negb _); cbn; [apply sametw_refl|apply sub_sametw]. }
  destruct (Z.eqb op 5).
  { destruct (readunsubscribe body) as [[i5 c5]|]; [|cbn; apply sametw_refl]. cbn. unfold on_unsubscribe.
    destruct (negb _); cbn; [apply sametw_refl|apply unsub_sametw]. }
  cbn. apply sametw_refl.
Qed.
Lemma pp_sametw fuel q : ktw (pp store async_store fuel q).
Proof.
  induction fuel as [|f IH]; intros s; [apply sametw_refl|].
  cbn [pp]. destruct (next limitP _) as [|c|op body rest]; [apply sametw_refl|cbn; apply cl_sametw|].
  set (s1 := modc q (set_buf rest) s).
  assert (E1 : sametw s s1) by (apply modc_sametw; reflexivity).
  pose proof (handle_sametw (pp store async_store f q) q op body s1 IH) as H.
  destruct (handle _ _ _ _ _ _ s1) as [r b]. cbn in H.
  destruct r as [s2|s2|s2]; cbn; try (eapply sametw_trans; eassumption).
  destruct b; [eapply sametw_trans; eassumption|].
  eapply sametw_trans; [exact E1|]. eapply sametw_trans; [exact H|apply IH].
Qed.

(* ---- C15 ------------------------------------------------------------------------------------------- *)
(* the only events that change any connection's deadline bookkeeping *)
Theorem timer_frame s e :
  match e with PauseW _ | ResumeW _ | Tick | Connect _ _ => True | _ => sametw s (step s e) end.
Proof.
  destruct e; try exact I; cbn [Broker.step].
  - unfold do_data. destruct (can_read _); [|apply sametw_refl].
    match goal with |- context [ppq _ _ q ?X] => assert (E1 : sametw s X) by (apply modc_sametw; reflexivity);
      pose proof (pp_sametw (S (length (buf (conns X q)))) q X) as E2; unfold ppq; destruct (pp _ _ _ q X) end; cbn in *.
    + eapply sametw_trans; eassumption.
    + eapply sametw_trans; [exact E1|]. eapply sametw_trans; [exact E2|]. unfold abort.
      eapply sametw_trans; [apply (modc_sametw q (set_aborted true)); reflexivity|apply cl_sametw].
    + eapply sametw_trans; eassumption.
  - unfold do_peer_closed. destruct (can_read _); [apply cl_sametw|apply sametw_refl].
  - unfold do_lost. destruct (_ && _); [|apply sametw_refl].
    eapply sametw_trans; [apply cl_sametw|]. eapply sametw_trans; [|apply (modc_sametw q (set_lost true)); reflexivity].
    destruct (copen _); [apply lostp_sametw|apply sametw_refl].
  - unfold do_lookup_done. destruct (negb _); [apply sametw_refl|].
    destruct (pending _) as [|[i dg] rest]; [apply sametw_refl|].
    eapply sametw_trans; [apply (modc_sametw q (set_pending rest)); reflexivity|].
    destruct r; [|apply bad_sametw].
    match goal with |- sametw ?X (match ?A with _ => _ end) =>
      pose proof (authenticate_sametw (ppq store async_store q) q i dg l X (fun s => pp_sametw _ q s)) as EA; destruct A end; cbn in *;
      [exact EA|eapply sametw_trans; [exact EA|apply cl_sametw]|exact EA].
Qed.
Theorem connect_timer q n s q' : q' <> q -> tw (conns (do_connect bname q n s) q') = tw (conns s q').
Proof.
  intros N. unfold do_connect. destruct (made (conns s q)); [reflexivity|].
  unfold wr. cbn. unfold upd. rewrite Nat.eqb_refl. cbn. unfold upd. destruct (Nat.eqb_spec q' q); [congruence|reflexivity].
Qed.

(* a stall starts a full grace period; a drain cancels it *)
Theorem pausew_effect q s : made (conns s q) = true -> lost (conns s q) = false -> wpaused (conns s q) = false ->
  tw (conns (do_pausew q s) q) = (Some grace, true) /\
  (forall q', q' <> q -> conns (do_pausew q s) q' = conns s q') /\
  closing (conns (do_pausew q s) q) = closing (conns s q) /\ out (conns (do_pausew q s) q) = out (conns s q).
Proof.
  intros Hm Hl Hw. unfold do_pausew. rewrite Hm, Hl, Hw. cbn. unfold upd. rewrite Nat.eqb_refl. cbn.
  repeat split. intros q' N. destruct (Nat.eqb_spec q' q); [congruence|reflexivity].
Qed.
Theorem resumew_effect q s : made (conns s q) = true -> lost (conns s q) = false -> wpaused (conns s q) = true ->
  tw (conns (do_resumew q s) q) = (None, false) /\
  (forall q', q' <> q -> conns (do_resumew q s) q' = conns s q') /\
  closing (conns (do_resumew q s) q) = closing (conns s q) /\ out (conns (do_resumew q s) q) = out (conns s q).
Proof.
  intros Hm Hl Hw. unfold do_resumew. rewrite Hm, Hl, Hw. cbn. unfold upd. rewrite Nat.eqb_refl. cbn.
  repeat split. intros q' N. destruct (Nat.eqb_spec q' q); [congruence|reflexivity].
Qed.
(* one second passes for a connection on a deadline: either the count goes down and nothing else
   happens to it, or (last second) it is sent OP_ERROR and closed *)
Theorem tick1_effect s q n : timer (conns s q) = Some n ->
  if (n <=? 1)%nat then
    tick1 s q = bad q (modc q (set_timer None) s) /\ closing (conns (tick1 s q) q) = true /\ timer (conns (tick1 s q) q) = None
  else
    tick1 s q = modc q (set_timer (Some (n - 1)%nat)) s /\ closing (conns (tick1 s q) q) = closing (conns s q) /\
    out (conns (tick1 s q) q) = out (conns s q).
Proof.
  intros H. unfold tick1. rewrite H. destruct (n <=? 1)%nat.
  - split; [reflexivity|]. destruct (bad_effect q (modc q (set_timer None) s)) as (A & _).
    split; [exact A|]. pose proof (bad_sametw q (modc q (set_timer None) s) q) as T. unfold tw in T.
    injection T. intros _ T1. rewrite T1. cbn. unfold upd. rewrite Nat.eqb_refl. reflexivity.
  - split; [reflexivity|]. cbn. unfold upd. rewrite Nat.eqb_refl. split; reflexivity.
Qed.
Theorem grace_is_60 : grace = 60%nat.
Proof. reflexivity. Qed.

(* ---- C14 ------------------------------------------------------------------------------------------- *)
(* with an asynchronous store an OP_AUTH is parked: the lookup is recorded, reading is paused, the loop
   breaks (so frames behind it stay in the buffer), nothing else changes *)
Theorem async_auth_parks k q i dg s : async_store = true -> copen (conns s q) = true ->
  on_auth store async_store k q i dg s =
  (Ok (pause_r q (modc q (fun c => set_pending (pending c ++ [(i, dg)]) c) s)), true).
Proof. intros Ea Ho. unfold on_auth. rewrite Ho, Ea. reflexivity. Qed.
(* nothing is read from a connection whose reading is paused *)
Theorem paused_ignores_data q ch s : rpaused (conns s q) = true -> do_data store async_store q ch s = s.
Proof. intros H. unfold do_data, can_read. rewrite H. rewrite andb_false_r. reflexivity. Qed.
(* the verdict is applied by the same [authenticate] the synchronous path uses, on the state as it is
   when the lookup completes, followed by the parked buffer; an exception drops the connection *)
Theorem completion_is_sync_authenticate q l s i dg rest :
  async_store = true -> made (conns s q) = true -> pending (conns s q) = (i, dg) :: rest ->
  do_lookup_done store async_store q (RLook l) s =
  match authenticate (ppq store async_store q) q i dg l (modc q (set_pending rest) s) with
  | Raise s2 => cl q s2
  | r' => st r'
  end.
Proof. intros Ea Hm Hp. unfold do_lookup_done. rewrite Ea, Hm, Hp. reflexivity. Qed.
Theorem failed_lookup_rejects q s i dg rest :
  async_store = true -> made (conns s q) = true -> pending (conns s q) = (i, dg) :: rest ->
  do_lookup_done store async_store q RRaise s = bad q (modc q (set_pending rest) s) /\
  do_lookup_done store async_store q (RLook LNone) s = bad q (modc q (set_pending rest) s).
Proof. intros Ea Hm Hp. unfold do_lookup_done. rewrite Ea, Hm, Hp. split; reflexivity. Qed.
End Timer.
