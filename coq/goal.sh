#!/bin/sh
# usage: goal.sh File.v LINE  — show the proof state after LINE lines (debug helper)
f=$1; n=$2
( head -n "$n" "$f"; echo 'Show.' ) | timeout 120 coqtop -Q . HP 2>&1 | tail -n ${3:-40}
