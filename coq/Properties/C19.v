(* C19 — exported connection and subscription gauges equal reality. *)
From Coq Require Import ZArith List Bool.
From HP Require Import Bytes Sha1 Wire Broker BrokerSpec BrokerInv BrokerStep BrokerMetrics.
Import ListNotations.
Open Scope Z_scope.

Section C19.
Variable bname : bytes. Variable store : ident -> lookup. Variable async_store : bool.
Notation run := (run bname store async_store).

(* in every reachable state (hence at every quiescent moment):
     m_conn : connected-clients gauge = number of registered connections
     m_made : connections-made counter = number of connections ever made (each once)
     m_lost : connections-made - connections-lost = connected clients (each loss counted once)
     m_subs : for every channel, the subscription gauges summed over identities = number of entries of
              the channel's subscriber list — which has no duplicates and holds exactly the connections
              currently subscribed (C08_registry), so the sum is the number of subscribers and is >= 0 *)
Theorem C19_gauges : forall h, M (run h).
Proof. exact (run_M bname store async_store). Qed.

Theorem C19_all_gone_zero : forall h, (forall q, copen (conns (run h) q) = false) ->
  g_conn (run h) = 0 /\ forall c, gsum c (g_subs (run h)) = 0.
Proof. exact (all_gone_zero bname store async_store). Qed.
End C19.

Print Assumptions C19_gauges.
Print Assumptions C19_all_gone_zero.
