(* C19 — exported connection and subscription gauges equal reality. *)
From Coq Require Import ZArith List Bool.
From HP Require Import Bytes Sha1 Wire Broker BrokerSpec BrokerInv BrokerStep BrokerMetrics BrokerGauge.
Import ListNotations.
Open Scope Z_scope.

Section C19.
Variable bname : bytes. Variable store : ident -> lookup. Variable async_store : bool.
Notation run := (run bname store async_store).

(* in every reachable state (hence at every quiescent moment):
     m_conn : connected-clients gauge = number of registered connections
     m_made : connections-made counter = number of connections ever made (each once)
     m_lost : connections-made - connections-lost = connected clients (each loss counted once)
     m_subs : for every channel, the subscription gauges summed over identities = number of entries of
              the channel's subscriber list — which has no duplicates and holds exactly the connections
              currently subscribed (C08_registry), so the sum is the number of subscribers and is >= 0 *)
Theorem C19_gauges : forall h, M (run h).
Proof. exact (run_M bname store async_store). Qed.

Theorem C19_all_gone_zero : forall h, (forall q, copen (conns (run h) q) = false) ->
  g_conn (run h) = 0 /\ forall c, gsum c (g_subs (run h)) = 0.
Proof. exact (all_gone_zero bname store async_store). Qed.
(* per identity, for EVERY history (also when a connection authenticates again under another identity: authenticate()
   moves its counts): the gauge of every (ident, channel) label = the number of connections currently subscribed to
   the channel whose current identity is ident (p_val); a connection without an identity holds no subscription (p_na) *)
Theorem C19_per_identity : forall h, PI (run h).
Proof. exact (run_PI bname store async_store). Qed.

Theorem C19_never_negative : forall h i c, 0 <= gval (i, c) (g_subs (run h)).
Proof. exact (gauges_nonneg bname store async_store). Qed.

(* once every client has gone EVERY gauge is zero (not only the per-channel sums) *)
Theorem C19_all_gone_every_gauge_zero : forall h, (forall q, copen (conns (run h) q) = false) ->
  forall i c, gval (i, c) (g_subs (run h)) = 0.
Proof. exact (all_gone_every_gauge_zero bname store async_store). Qed.
End C19.

(* ---- the same for the code as TRANSLATED from the Python source on every run (harness/pytrans3.py -> BrokerGen.v):
   run_src is the event loop with the translated Server.subscribe/unsubscribe/publish and Connection.on_publish/
   on_subscribe/on_unsubscribe/authenticate/connection_lost/message_received plugged in; BrokerGenRun.run_src_eq proves it
   equal to the model.  These theorems rely on functional_extensionality_dep (Coq standard library) and nothing else. *)
From HP Require Import PyBroker BrokerGen BrokerGenEq BrokerGenRun BrokerGenProps.
Theorem C19_src_run_is_model : forall bname store async_store h, run_src bname store async_store h = run bname store async_store h.
Proof. exact run_src_eq. Qed.
Theorem C19_src_gauges : forall bname store async_store h, M (run_src bname store async_store h).
Proof. exact src_M. Qed.
Theorem C19_src_per_identity : forall bname store async_store h, PI (run_src bname store async_store h).
Proof. exact src_PI. Qed.
Theorem C19_src_all_gone_every_gauge_zero : forall bname store async_store h, (forall q, copen (conns (run_src bname store async_store h) q) = false) ->
  forall i c, gval (i, c) (g_subs (run_src bname store async_store h)) = 0%Z.
Proof. exact src_all_gone_every_gauge_zero. Qed.

Print Assumptions C19_gauges.
Print Assumptions C19_all_gone_zero.
Print Assumptions C19_per_identity.
Print Assumptions C19_never_negative.
Print Assumptions C19_all_gone_every_gauge_zero.
Print Assumptions C19_src_run_is_model.
Print Assumptions C19_src_gauges.
Print Assumptions C19_src_per_identity.
Print Assumptions C19_src_all_gone_every_gauge_zero.
