(* C12 — clients hand every received message to the application once, in order. *)
From Coq Require Import ZArith List Bool.
From HP Require Import Bytes Wire ParamsOK AioSession AioFacts AioStream TwSession LegacyClient LegacyFacts LegacyStream BlkSession BlkFacts.
Import ListNotations.

(* asyncio: in every reachable state  (handed to read()/__anext__) ++ (waiting in read_queue) = every OP_PUBLISH
   decoded so far, in decoding order: nothing lost, duplicated, reordered or invented, for every interleaving of
   arrivals, reads, losses and reconnections *)
Theorem C12_asyncio : forall ident secret es, Q (arun ident secret es).
Proof. exact run_Q. Qed.

(* ... and what is put into the queue is what the broker sent: one data_received(chunk) on a live connection whose
   buffered bytes ++ chunk decode (Wire.parse, chunking-independent by C06) to well-formed OP_PUBLISH frames fs puts
   exactly the messages of fs into read_queue, in order, each once, keeps exactly the incomplete tail r buffered, raises
   nothing and leaves the connection open.  The Twisted glue runs the same do_data (TwSession.tstep, TData) *)
Theorem C12_asyncio_stream : forall ident secret s k chunk fs r,
  (k < length (conns s))%nat -> cclosing (getc s k) = false -> clost (getc s k) = false ->
  parse limitP (cbuf (getc s k) ++ chunk) = (fs, r, None) -> Forall is_pub fs ->
  let s' := do_data ident secret k chunk s in
  recvd s' = recvd s ++ msgs_of fs /\ queue s' = queue s ++ msgs_of fs /\ cbuf (getc s' k) = r /\
  raised s' = raised s /\ delivered s' = delivered s /\ cclosing (getc s' k) = false /\ cout (getc s' k) = cout (getc s k).
Proof. exact data_publishes. Qed.

Theorem C12_twisted : forall ident secret es, Q (trun ident secret es).
Proof. exact trun_Q. Qed.

(* blocking Client.run: one recv(d) in the receive loop makes exactly the callbacks of the complete frames of
   buffer ++ d (message_callback for OP_PUBLISH, error_callback for OP_ERROR), in order, leaves exactly the
   incomplete tail buffered, and drops the connection on a protocol violation after the frames before it *)
Theorem C12_legacy_recv : forall s d rest,
  lpcs s = PRecv -> lconnected s = true -> lrecv s = RData d :: rest ->
  forall fs r e, parse limitP (lbuf s ++ d) = (fs, r, e) ->
  let s' := lstep s in
  ltrace s' = match how_of (snd (cbs fs)) e with
              | O => [] | S O => [LDisconnected (lk s)] | _ => [LCrash] end ++ rev (fst (cbs fs)) ++ ltrace s /\
  (snd (cbs fs) = false -> lbuf s' = r) /\
  (snd (cbs fs) = false -> e = None -> next limitP (lbuf s') = NeedMore).
Proof. exact recv_hands_over_everything. Qed.

(* blocking Client.run over a whole connection, every socket script: unless an undecodable body made run() raise, the
   callbacks made on the current connection are those of F and the bytes received on it decode to the handshake frame
   F0, then F, then what the buffer still holds: every message once, in order, none invented, none skipped *)
Theorem C12_legacy_stream : forall conn recv send subs stop_after fuel,
  let s := lrun fuel (linit conn recv send subs stop_after) in
  In LCrash (ltrace s) \/
  exists F0 F, (length F0 <= 1)%nat /\ snd (cbs F) = false /\ conn_cbs (ltrace s) = rev (fst (cbs F)) /\
    parse limitP (lrx s) = let '(fs, r, e) := parse limitP (lbuf s) in (F0 ++ F ++ fs, r, e).
Proof. exact legacy_stream. Qed.

(* blocking thread session: what read() returned ++ what waits in read_queue = every OP_PUBLISH decoded, in order *)
Theorem C12_blocking_session : forall ident secret es, Qb (brun ident secret es).
Proof. exact brun_Qb. Qed.

(* ---- the same for the asyncio session with its application-facing methods TRANSLATED from hpfeeds/asyncio/client.py on every
   run (harness/pytrans6.py -> AioGen.v; AioGenEq.v).  No axioms. *)
From HP Require Import AioGen AioGenEq.
Theorem C12_src_asyncio_on_publish_is_model : forall ident secret k body i c d s, readpublish body = Some (i, c, d) ->
  on_frame ident secret k 3 body s = (Protocol_on_publish i c d s, false).
Proof. exact on_publish_src_eq. Qed.
Theorem C12_src_asyncio_publish_is_model : forall ident secret c d s, ClientSession_publish ident secret c d s = do_pub ident secret c d s.
Proof. exact publish_src_eq. Qed.
Theorem C12_src_asyncio : forall ident secret es, Q (arun_src ident secret es).
Proof. exact src_run_Q. Qed.

(* the Twisted ClientSessionService glue, translated from hpfeeds/twisted/service.py on every run (pytrans6.py; TwGenEq.v) *)
From HP Require Import TwSession TwGenEq.
Theorem C12_src_twisted : forall ident secret es, Q (trun_src ident secret es).
Proof. exact src_trun_Q. Qed.
Theorem C12_src_twisted_on_publish_is_model : forall ident secret k body i c d s, readpublish body = Some (i, c, d) ->
  on_frame ident secret k 3 body s = (TwProtocol_on_publish i c d s, false).
Proof. exact tw_on_publish_src_eq. Qed.

(* the blocking thread session, its application-facing methods translated from hpfeeds/blocking/session.py on every run (pytrans7.py; BlkGenEq.v) *)
From HP Require Import BlkSession BlkFacts BlkGen BlkGenEq.
Theorem C12_src_blocking_session : forall ident secret es, Qb (brun_src ident secret es).
Proof. exact src_brun_Qb. Qed.
Theorem C12_src_blocking_session_on_publish_is_model : forall i ch d c s, apply_ev (ClientProto.HPublish i ch d) (c, s) = (c, BlkProtocol_on_publish i ch d s).
Proof. exact blk_on_publish_src_eq. Qed.

Print Assumptions C12_asyncio.
Print Assumptions C12_blocking_session.
Print Assumptions C12_asyncio_stream.
Print Assumptions C12_twisted.
Print Assumptions C12_legacy_recv.
Print Assumptions C12_legacy_stream.
Print Assumptions C12_src_asyncio_on_publish_is_model.
Print Assumptions C12_src_asyncio_publish_is_model.
Print Assumptions C12_src_asyncio.
Print Assumptions C12_src_twisted.
Print Assumptions C12_src_twisted_on_publish_is_model.
Print Assumptions C12_src_blocking_session.
Print Assumptions C12_src_blocking_session_on_publish_is_model.
