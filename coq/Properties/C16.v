(* C16 — asyncio, blocking and Twisted protocol classes interpret a stream identically. *)
From Coq Require Import ZArith List Bool.
From HP Require Import Bytes Wire ClientProto.
From HP Require Import PyPrim PyObj.
From HP Require ProtoClsGen ProtoClsEq.
Import ListNotations.
Open Scope Z_scope.

(* run_with X_data chunks = (log, buffer) of one connection fed chunk by chunk to class X's data_received,
   as a recording subclass sees it: handler calls with their arguments, the OP_AUTH written in answer to
   OP_INFO, connection_ready, protocol errors, closes, and exceptions escaping data_received *)
Theorem C16_three_equal : forall ident secret (chunks : list bytes),
  run_with (aio_data ident secret) chunks = run_with (blk_data ident secret) chunks /\
  run_with (blk_data ident secret) chunks = run_with (tw_data ident secret) chunks.
Proof. exact three_equal. Qed.

(* a decoded frame drops the connection exactly when it is one of the broker-only opcodes
   (an undecodable header drops it in the decoder: [Bad _ => ([ProtoError; Close], buf)] in all three) *)
Theorem C16_drop_iff : forall ident secret op body evs, 0 <= op <= 5 ->
  blk_message ident secret op body = (evs, false) -> (In Close evs <-> (op = 2 \/ op = 4 \/ op = 5)).
Proof. exact drop_iff. Qed.

(* ---- for the SOURCE: ProtoClsGen.v is the Gallina text harness/pytrans2.py translated on this run from
   hpfeeds/asyncio/protocol.py (module Aio), hpfeeds/blocking/protocol.py (Blk) and hpfeeds/twisted/protocol.py (Tw):
   BaseProtocol + ClientProtocol of each, the methods reachable from data_received / dataReceived, as a recording
   subclass and the transport see them (PyObj.v).  State: mkpst (the Unpacker's buffer) (the log so far).
   data_spec out evs buf' log := out's state is (buf', log ++ evs without a trailing Raised) and out raises iff evs ends
   in Raised.  An ident of more than 255 bytes cannot be packed at all (struct.error in all three), hence the premise. ---- *)
Theorem C16_src_blocking_is_model : forall ident secret, zlen ident <= 255 -> forall buf chunk log,
  let '(evs, buf') := blk_data ident secret buf chunk in
  ProtoClsEq.data_spec (ProtoClsGen.Blk.data_received (VStr ident) (VStr secret) (VBytes chunk) (mkpst (VBArr buf) log)) evs buf' log.
Proof. exact ProtoClsEq.blk_data_eq. Qed.
Theorem C16_src_twisted_is_model : forall ident secret, zlen ident <= 255 -> forall buf chunk log,
  let '(evs, buf') := tw_data ident secret buf chunk in
  ProtoClsEq.data_spec (ProtoClsGen.Tw.dataReceived (VStr ident) (VStr secret) (VBytes chunk) (mkpst (VBArr buf) log)) evs buf' log.
Proof. exact ProtoClsEq.tw_data_eq. Qed.
Theorem C16_src_asyncio_is_model : forall ident secret, zlen ident <= 255 -> forall buf chunk log,
  let '(evs, buf') := blk_data ident secret buf chunk in
  ProtoClsEq.data_spec (ProtoClsGen.Aio.data_received (VStr ident) (VStr secret) (VBytes chunk) (mkpst (VBArr buf) log)) evs buf' log.
Proof. exact ProtoClsEq.aio_data_eq. Qed.

(* for every byte stream in every chunking the three translated classes end with the same log and the same buffer
   (run_cls data chunks st0 = the state after feeding the chunks one by one, whatever escaped) *)
Theorem C16_src_three_equal : forall ident secret, zlen ident <= 255 -> forall chunks : list bytes,
  ProtoClsEq.run_cls (ProtoClsGen.Aio.data_received (VStr ident) (VStr secret)) chunks ProtoClsEq.st0 =
  ProtoClsEq.run_cls (ProtoClsGen.Blk.data_received (VStr ident) (VStr secret)) chunks ProtoClsEq.st0 /\
  ProtoClsEq.run_cls (ProtoClsGen.Blk.data_received (VStr ident) (VStr secret)) chunks ProtoClsEq.st0 =
  ProtoClsEq.run_cls (ProtoClsGen.Tw.dataReceived (VStr ident) (VStr secret)) chunks ProtoClsEq.st0.
Proof. exact ProtoClsEq.src_three_equal. Qed.
(* ... and chunk by chunk, from any buffer and log, also on whether an exception escapes *)
Theorem C16_src_three_agree : forall ident secret, zlen ident <= 255 -> forall buf chunk log,
  let st := mkpst (VBArr buf) log in
  ProtoClsEq.agree (ProtoClsGen.Aio.data_received (VStr ident) (VStr secret) (VBytes chunk) st)
                   (ProtoClsGen.Blk.data_received (VStr ident) (VStr secret) (VBytes chunk) st) /\
  ProtoClsEq.agree (ProtoClsGen.Blk.data_received (VStr ident) (VStr secret) (VBytes chunk) st)
                   (ProtoClsGen.Tw.dataReceived (VStr ident) (VStr secret) (VBytes chunk) st).
Proof. exact ProtoClsEq.src_three_agree. Qed.

Print Assumptions C16_three_equal.
Print Assumptions C16_drop_iff.
Print Assumptions C16_src_blocking_is_model.
Print Assumptions C16_src_twisted_is_model.
Print Assumptions C16_src_asyncio_is_model.
Print Assumptions C16_src_three_equal.
Print Assumptions C16_src_three_agree.
