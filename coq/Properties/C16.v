(* C16 — asyncio, blocking and Twisted protocol classes interpret a stream identically. *)
From Coq Require Import ZArith List Bool.
From HP Require Import Bytes Wire ClientProto.
Import ListNotations.
Open Scope Z_scope.

(* run_with X_data chunks = (log, buffer) of one connection fed chunk by chunk to class X's data_received,
   as a recording subclass sees it: handler calls with their arguments, the OP_AUTH written in answer to
   OP_INFO, connection_ready, protocol errors, closes, and exceptions escaping data_received *)
Theorem C16_three_equal : forall ident secret (chunks : list bytes),
  run_with (aio_data ident secret) chunks = run_with (blk_data ident secret) chunks /\
  run_with (blk_data ident secret) chunks = run_with (tw_data ident secret) chunks.
Proof. exact three_equal. Qed.

(* a decoded frame drops the connection exactly when it is one of the broker-only opcodes
   (an undecodable header drops it in the decoder: [Bad _ => ([ProtoError; Close], buf)] in all three) *)
Theorem C16_drop_iff : forall ident secret op body evs, 0 <= op <= 5 ->
  blk_message ident secret op body = (evs, false) -> (In Close evs <-> (op = 2 \/ op = 4 \/ op = 5)).
Proof. exact drop_iff. Qed.

Print Assumptions C16_three_equal.
Print Assumptions C16_drop_iff.
