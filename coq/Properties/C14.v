(* C14 — with an asynchronous credential store, pipelined frames wait for the verdict. *)
From Coq Require Import ZArith List Bool.
From HP Require Import Bytes Sha1 Wire Broker BrokerSpec BrokerInv BrokerStep BrokerTrace BrokerLocal BrokerTimer BrokerProps BrokerProps2 BrokerBlame BrokerParked.
Import ListNotations.

Section C14.
Variable bname : bytes. Variable store : ident -> lookup. Variable async_store : bool.
Notation run := (run bname store async_store).
Notation step := (step bname store async_store).

(* an OP_AUTH is parked: lookup recorded, reading paused, the drain loop breaks — the frames behind it
   stay in the buffer, neither acted on nor dropped *)
Theorem C14_auth_parks : forall k q i dg s, async_store = true -> copen (conns s q) = true ->
  on_auth store async_store k q i dg s =
  (Ok (pause_r q (modc q (fun c => set_pending (pending c ++ [(i, dg)]) c) s)), true).
Proof. exact (async_auth_parks store async_store). Qed.
Theorem C14_paused_ignores_data : forall q ch s, rpaused (conns s q) = true -> do_data store async_store q ch s = s.
Proof. exact (paused_ignores_data store async_store). Qed.

(* whatever else happens meanwhile does not touch the parked connection (C10 frame locality: buffer,
   pending lookups, paused flag and identity are among the untouched fields) *)
Theorem C14_parked_untouched : forall h e p q, actor e = Some p -> q <> p ->
  untouched (conns (run h) q) (conns (step (run h) e) q).
Proof. exact (frame_local_run bname store async_store). Qed.

(* the verdict is applied by the very function the synchronous path uses, on the state as it is at the
   moment the lookup completes, followed by the parked buffer in order; an exception drops the connection *)
Theorem C14_completion : forall q l s i dg rest,
  async_store = true -> made (conns s q) = true -> pending (conns s q) = (i, dg) :: rest ->
  do_lookup_done store async_store q (RLook l) s =
  match authenticate (ppq store async_store q) q i dg l (modc q (set_pending rest) s) with
  | Raise s2 => cl q s2
  | r' => st r'
  end.
Proof. exact (completion_is_sync_authenticate store async_store). Qed.

(* a lookup that raises or finds nothing: OP_ERROR + disconnect; by C04_closing_silent nothing is ever
   delivered to it afterwards, and it reads no further input *)
Theorem C14_failed_lookup : forall q s i dg rest,
  async_store = true -> made (conns s q) = true -> pending (conns s q) = (i, dg) :: rest ->
  do_lookup_done store async_store q RRaise s = bad q (modc q (set_pending rest) s) /\
  do_lookup_done store async_store q (RLook LNone) s = bad q (modc q (set_pending rest) s).
Proof. exact (failed_lookup_rejects store async_store). Qed.

(* and every invariant (registry, refinement of the abstract machine, legitimacy of accepted actions)
   holds for asynchronous stores too: [run_good] quantifies over async_store *)
Theorem C14_good_always : forall h, Good store async_store (run h).
Proof. exact (good_always bname store async_store). Qed.

(* ---- over whole histories ----
   waiting q s h: every event of the stretch h (played from s) is either not q's own (any event of another connection,
   or a tick while q is on no deadline) or bytes arriving for q.  So: for every history h1 after which q has a lookup in
   flight (reading paused), and EVERY such continuation h2, the parked connection is untouched - in particular the frames
   behind its OP_AUTH are still buffered, byte for byte, and its lookups still queued: nothing was acted on, nothing
   dropped - and when the verdict l then arrives, the state is the one the synchronous authenticate produces on that
   buffer at that moment (an exception drops the connection). *)
Theorem C14_parked_until_verdict : forall h1 h2 q i dg rest l,
  async_store = true -> made (conns (run h1) q) = true ->
  pending (conns (run h1) q) = (i, dg) :: rest -> rpaused (conns (run h1) q) = true ->
  waiting bname store async_store q (run h1) h2 ->
  untouched (conns (run h1) q) (conns (run (h1 ++ h2)) q) /\
  buf (conns (run (h1 ++ h2)) q) = buf (conns (run h1) q) /\
  pending (conns (run (h1 ++ h2)) q) = (i, dg) :: rest /\
  run (h1 ++ h2 ++ [LookupDone q (RLook l)]) =
    match authenticate (ppq store async_store q) q i dg l (modc q (set_pending rest) (run (h1 ++ h2))) with
    | Raise s3 => cl q s3
    | r' => st r'
    end.
Proof. exact (parked_until_verdict bname store async_store). Qed.
End C14.

Print Assumptions C14_auth_parks.
Print Assumptions C14_paused_ignores_data.
Print Assumptions C14_parked_untouched.
Print Assumptions C14_completion.
Print Assumptions C14_failed_lookup.
Print Assumptions C14_good_always.
Print Assumptions C14_parked_until_verdict.
