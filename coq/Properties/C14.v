(* C14 — with an asynchronous credential store, pipelined frames wait for the verdict. *)
From Coq Require Import ZArith List Bool.
From HP Require Import Bytes Sha1 Wire Broker BrokerSpec BrokerInv BrokerStep BrokerTrace BrokerLocal BrokerTimer BrokerProps BrokerProps2 BrokerBlame BrokerParked BrokerWellBehaved BrokerWellBehavedAsync.
Import ListNotations.

Section C14.
Variable bname : bytes. Variable store : ident -> lookup. Variable async_store : bool.
Notation run := (run bname store async_store).
Notation step := (step bname store async_store).

(* an OP_AUTH is parked: lookup recorded, reading paused, the drain loop breaks — the frames behind it
   stay in the buffer, neither acted on nor dropped *)
Theorem C14_auth_parks : forall k q i dg s, async_store = true -> copen (conns s q) = true ->
  on_auth store async_store k q i dg s =
  (Ok (pause_r q (modc q (fun c => set_pending (pending c ++ [(i, dg)]) c) s)), true).
Proof. exact (async_auth_parks store async_store). Qed.
Theorem C14_paused_ignores_data : forall q ch s, rpaused (conns s q) = true -> do_data store async_store q ch s = s.
Proof. exact (paused_ignores_data store async_store). Qed.

(* whatever else happens meanwhile does not touch the parked connection (C10 frame locality: buffer,
   pending lookups, paused flag and identity are among the untouched fields) *)
Theorem C14_parked_untouched : forall h e p q, actor e = Some p -> q <> p ->
  untouched (conns (run h) q) (conns (step (run h) e) q).
Proof. exact (frame_local_run bname store async_store). Qed.

(* the verdict is applied by the very function the synchronous path uses, on the state as it is at the
   moment the lookup completes, followed by the parked buffer in order; an exception drops the connection *)
Theorem C14_completion : forall q l s i dg rest,
  async_store = true -> made (conns s q) = true -> pending (conns s q) = (i, dg) :: rest ->
  do_lookup_done store async_store q (RLook l) s =
  match authenticate (ppq store async_store q) q i dg l (modc q (set_pending rest) s) with
  | Raise s2 => cl q s2
  | r' => st r'
  end.
Proof. exact (completion_is_sync_authenticate store async_store). Qed.

(* a lookup that raises or finds nothing: OP_ERROR + disconnect; by C04_closing_silent nothing is ever
   delivered to it afterwards, and it reads no further input *)
Theorem C14_failed_lookup : forall q s i dg rest,
  async_store = true -> made (conns s q) = true -> pending (conns s q) = (i, dg) :: rest ->
  do_lookup_done store async_store q RRaise s = bad q (modc q (set_pending rest) s) /\
  do_lookup_done store async_store q (RLook LNone) s = bad q (modc q (set_pending rest) s).
Proof. exact (failed_lookup_rejects store async_store). Qed.

(* and every invariant (registry, refinement of the abstract machine, legitimacy of accepted actions)
   holds for asynchronous stores too: [run_good] quantifies over async_store *)
Theorem C14_good_always : forall h, Good (srow store) async_store (run h).
Proof. exact (good_always bname store async_store). Qed.

(* ---- over whole histories ----
   waiting q s h: every event of the stretch h (played from s) is either not q's own (any event of another connection,
   or a tick while q is on no deadline) or bytes arriving for q.  So: for every history h1 after which q has a lookup in
   flight (reading paused), and EVERY such continuation h2, the parked connection is untouched - in particular the frames
   behind its OP_AUTH are still buffered, byte for byte, and its lookups still queued: nothing was acted on, nothing
   dropped - and when the verdict l then arrives, the state is the one the synchronous authenticate produces on that
   buffer at that moment (an exception drops the connection). *)
Theorem C14_parked_until_verdict : forall h1 h2 q i dg rest l,
  async_store = true -> made (conns (run h1) q) = true ->
  pending (conns (run h1) q) = (i, dg) :: rest -> rpaused (conns (run h1) q) = true ->
  waiting bname store async_store q (run h1) h2 ->
  untouched (conns (run h1) q) (conns (run (h1 ++ h2)) q) /\
  buf (conns (run (h1 ++ h2)) q) = buf (conns (run h1) q) /\
  pending (conns (run (h1 ++ h2)) q) = (i, dg) :: rest /\
  run (h1 ++ h2 ++ [LookupDone q (RLook l)]) =
    match authenticate (ppq store async_store q) q i dg l (modc q (set_pending rest) (run (h1 ++ h2))) with
    | Raise s3 => cl q s3
    | r' => st r'
    end.
Proof. exact (parked_until_verdict bname store async_store). Qed.
End C14.

Section C14b.
Variable store : ident -> lookup.
(* "they take effect exactly once and in order when a successful verdict arrives": when the verdict for the oldest pending
   OP_AUTH (i, digest) is a row r with digest = SHA1(nonce ++ secret of r), the connection is authenticated as (i, r) and
   process_pending runs over the parked buffer; if that holds well-formed requests permitted under r (and an incomplete
   tail), every one of them is accepted, in order, the connection stays healthy and only the tail stays buffered *)
Theorem C14_verdict_accepts_parked : forall q s i r post rest more, Good (srow store) true s -> healthy s q ->
  pending (conns s q) = (i, sha1 (nonce (conns s q) ++ r_secret r)) :: more ->
  buf (conns s q) = concat (map enc post) ++ rest -> next ParamsOK.limitP rest = NeedMore -> Forall wf post -> wb_plain i r post ->
  let s' := do_lookup_done store true q (RLook (LRow r)) s in
  healthy s' q /\ agrees s' q (Some (i, r)) /\ buf (conns s' q) = rest /\ timer (conns s' q) = timer (conns s q).
Proof. exact (lookup_done_wb store). Qed.
(* and the read that carried the OP_AUTH only parked it: lookup queued, everything behind it still buffered *)
Theorem C14_auth_read_parks : forall q s chunk body i dg tailb, healthy s q -> can_read (conns s q) = true ->
  buf (conns s q) ++ chunk = hdr 2 body ++ tailb -> wf (2%Z, body) -> readauth body = Some (i, dg) ->
  let s' := do_data store true q chunk s in
  healthy s' q /\ buf (conns s' q) = tailb /\ pending (conns s' q) = pending (conns s q) ++ [(i, dg)] /\
  timer (conns s' q) = timer (conns s q) /\ nonce (conns s' q) = nonce (conns s q) /\
  (ak (conns s' q), pubchans (conns s' q), subchans (conns s' q)) = (ak (conns s q), pubchans (conns s q), subchans (conns s q)).
Proof. exact (data_auth_parks store). Qed.
End C14b.

(* ---- the same for the code as TRANSLATED from the Python source on every run (harness/pytrans3.py -> BrokerGen.v):
   run_src is the event loop with the translated Server.subscribe/unsubscribe/publish and Connection.on_publish/
   on_subscribe/on_unsubscribe/authenticate/connection_lost/message_received plugged in; BrokerGenRun.run_src_eq proves it
   equal to the model.  These theorems rely on functional_extensionality_dep (Coq standard library) and nothing else. *)
From HP Require Import PyBroker BrokerGen BrokerGenEq BrokerGenRun BrokerGenProps.
Theorem C14_src_run_is_model : forall bname store async_store h, run_src bname store async_store h = run bname store async_store h.
Proof. exact run_src_eq. Qed.
Theorem C14_src_good_always : forall bname store async_store h, Good (srow store) async_store (run_src bname store async_store h).
Proof. exact src_good. Qed.
Theorem C14_src_authenticate_is_model : forall pp q i dg l s, Connection_authenticate pp q i dg l s = emb (authenticate (pp q) q i dg l s).
Proof. exact Connection_authenticate_eq. Qed.

Theorem C14_src_on_auth_is_model : forall store async_store (pp : nat -> state -> res) q i dg s,
  to_resb (Connection_on_auth store async_store pp q i dg s) = on_auth store async_store (pp q) q i dg s.
Proof. exact Connection_on_auth_eq. Qed.
Theorem C14_src_completion_is_model : forall (pp : nat -> state -> res) q r i dg rest s, pending (conns s q) = (i, dg) :: rest ->
  Connection_on_auth_result pp q r i dg s =
  let s1 := modc q (set_pending rest) s in
  match r with
  | RRaise => BOk false (bad q s1)
  | RLook l => match authenticate (pp q) q i dg l s1 with
               | Ok s2 => BOk false s2 | Raise s2 => BOk false (cl q s2) | Fuel s2 => BFuel s2 end
  end.
Proof. exact Connection_on_auth_result_eq. Qed.

Print Assumptions C14_auth_parks.
Print Assumptions C14_paused_ignores_data.
Print Assumptions C14_parked_untouched.
Print Assumptions C14_completion.
Print Assumptions C14_failed_lookup.
Print Assumptions C14_good_always.
Print Assumptions C14_parked_until_verdict.
Print Assumptions C14_verdict_accepts_parked.
Print Assumptions C14_auth_read_parks.
Print Assumptions C14_src_run_is_model.
Print Assumptions C14_src_good_always.
Print Assumptions C14_src_authenticate_is_model.
Print Assumptions C14_src_on_auth_is_model.
Print Assumptions C14_src_completion_is_model.
