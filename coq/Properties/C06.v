(* C06 — stream decoding is independent of how the bytes are chunked. *)
From Coq Require Import ZArith List.
From HP Require Import Bytes Wire WireFacts ParamsOK WireStream.
From HP Require ProtoGen ProtoGenEq ProtoGenProps.
From HP Require Import PyPrim.
Import ListNotations.
Open Scope Z_scope.

(* feed_all limitP chunks : (frames yielded so far, bytes still buffered, error) after feeding the
   chunks one by one, draining the Unpacker after each feed.  parse = the same for one big chunk. *)

(* for EVERY byte stream and EVERY way of cutting it *)
Theorem C06_chunk_independent : forall chunks : list bytes,
  feed_all limitP chunks = parse limitP (concat chunks).
Proof. exact WireStream.chunk_independent. Qed.

(* well-formed frames + an incomplete tail, cut anywhere: exactly that sequence, in order, each once;
   only the tail stays buffered *)
Theorem C06_frames : forall (fs : list (Z * bytes)) (p : bytes) (chunks : list bytes),
  Forall (wf_frame limitP) fs -> next limitP p = NeedMore ->
  concat chunks = concat (map enc fs) ++ p ->
  feed_all limitP chunks = (fs, p, None).
Proof. exact WireStream.frames_any_chunking. Qed.

(* as soon as its last byte has arrived and not before: after the first k chunks, with frame f still
   in flight (a non-empty part s of it has not arrived), exactly fs1 has been yielded *)
Theorem C06_prompt : forall (fs1 : list (Z * bytes)) (f : Z * bytes) (p1 : bytes) (chunks : list bytes) (k : nat),
  Forall (wf_frame limitP) fs1 -> wf_frame limitP f -> (exists s, s <> [] /\ p1 ++ s = enc f) ->
  concat (firstn k chunks) = concat (map enc fs1) ++ p1 ->
  feed_all limitP (firstn k chunks) = (fs1, p1, None).
Proof. exact WireStream.prompt. Qed.

(* ---- for the SOURCE (ProtoGen.v = /repo/hpfeeds/protocol.py translated on this run).
   src_feed_all chunks: a fresh translated Unpacker; for every chunk  feed(chunk)  then  __next__  until it
   raises; the result is (values yielded so far, self.buf, the last exception unless StopIteration). ---- *)
Theorem C06_src_chunk_independent : forall chunks : list bytes,
  ProtoGenEq.src_feed_all chunks = ProtoGenEq.src_feed_all [concat chunks].
Proof. exact ProtoGenProps.src_chunk_independent. Qed.

Theorem C06_src_frames : forall (fs : list (Z * bytes)) (p : bytes) (chunks : list bytes),
  Forall (wf_frame limitP) fs -> next limitP p = NeedMore ->
  concat chunks = concat (map enc fs) ++ p ->
  ProtoGenEq.src_feed_all chunks = (map (fun f => VTuple [VInt (fst f); VBytes (snd f)]) fs, VBArr p, None).
Proof. exact ProtoGenProps.src_frames. Qed.

(* the translated Unpacker and the model agree on every input, so everything above transfers *)
Theorem C06_src_is_model : forall chunks : list bytes,
  ProtoGenEq.src_feed_all chunks = ProtoGenEq.abs_result (feed_all limitP chunks).
Proof. exact ProtoGenEq.src_feed_all_eq. Qed.

Print Assumptions C06_chunk_independent.
Print Assumptions C06_frames.
Print Assumptions C06_prompt.
Print Assumptions C06_src_chunk_independent.
Print Assumptions C06_src_frames.
Print Assumptions C06_src_is_model.
