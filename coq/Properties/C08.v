(* C08 — subscription state follows the last (un)subscribe; repeats are idempotent. *)
From Coq Require Import ZArith List Bool.
From HP Require Import Bytes Sha1 Wire Broker BrokerSpec BrokerInv BrokerProps.
Import ListNotations.

Section C08.
Variable bname : bytes. Variable store : ident -> lookup. Variable async_store : bool.
Notation run := (run bname store async_store).

(* holds l q c: scanning the log of accepted requests from the newest, the first SUBSCRIBE/UNSUBSCRIBE of
   q for c (or end of q) found is a SUBSCRIBE.  In every reachable state q is registered for c iff that
   holds — however many SUBSCRIBEs or UNSUBSCRIBEs preceded *)
Theorem C08_follows_last_op : forall h q c,
  memc c (active (conns (run h) q)) = holds (alog (run h)) q c.
Proof. exact (follows_last_op bname store async_store). Qed.

(* the registry has no duplicates and agrees with the per-connection sets: one copy per message *)
Theorem C08_registry : forall h,
  (forall c, NoDup (subs (run h) c)) /\ (forall q, NoDup (active (conns (run h) q))) /\
  (forall q c, In q (subs (run h) c) <-> In c (active (conns (run h) q))).
Proof. exact (registry_nodup bname store async_store). Qed.

(* and delivery is decided by exactly that predicate *)
Theorem C08_delivery_rule : forall t p i c d q,
  sp_out (spec (APub p i c d :: t)) q =
  if holds t q c && negb (sp_closed (spec t) q) then (i, c, d) :: sp_out (spec t) q else sp_out (spec t) q.
Proof. exact spec_pub_rule. Qed.
Theorem C08_refines : forall h q,
  pubs (out (conns (run h) q)) = sp_out (spec (alog (run h))) q.
Proof. exact (refines bname store async_store). Qed.

(* non-vacuity / the idempotence cases spelled out on the predicate itself *)
Example C08_examples : forall q c t,
  holds (ASub q c :: ASub q c :: t) q c = true /\
  holds (AUnsub q c :: ASub q c :: ASub q c :: t) q c = false /\
  holds (AUnsub q c :: t) q c = false /\
  holds (ASub q c :: AUnsub q c :: ASub q c :: t) q c = true.
Proof. intros. cbn. rewrite Nat.eqb_refl, bytes_eqb_refl. cbn. auto. Qed.
End C08.

Print Assumptions C08_follows_last_op.
Print Assumptions C08_registry.
Print Assumptions C08_delivery_rule.
Print Assumptions C08_refines.
