(* C08 — subscription state follows the last (un)subscribe; repeats are idempotent. *)
From Coq Require Import ZArith List Bool.
From HP Require Import Bytes Sha1 Wire Broker BrokerSpec BrokerInv BrokerProps.
Import ListNotations.

Section C08.
Variable bname : bytes. Variable store : ident -> lookup. Variable async_store : bool.
Notation run := (run bname store async_store).

(* holds l q c: scanning the log of accepted requests from the newest, the first SUBSCRIBE/UNSUBSCRIBE of
   q for c (or end of q) found is a SUBSCRIBE.  In every reachable state q is registered for c iff that
   holds — however many SUBSCRIBEs or UNSUBSCRIBEs preceded *)
Theorem C08_follows_last_op : forall h q c,
  memc c (active (conns (run h) q)) = holds (alog (run h)) q c.
Proof. exact (follows_last_op bname store async_store). Qed.

(* the registry has no duplicates and agrees with the per-connection sets: one copy per message *)
Theorem C08_registry : forall h,
  (forall c, NoDup (subs (run h) c)) /\ (forall q, NoDup (active (conns (run h) q))) /\
  (forall q c, In q (subs (run h) c) <-> In c (active (conns (run h) q))).
Proof. exact (registry_nodup bname store async_store). Qed.

(* and delivery is decided by exactly that predicate *)
Theorem C08_delivery_rule : forall t p i c d q,
  sp_out (spec (APub p i c d :: t)) q =
  if holds t q c && negb (sp_closed (spec t) q) then (i, c, d) :: sp_out (spec t) q else sp_out (spec t) q.
Proof. exact spec_pub_rule. Qed.
Theorem C08_refines : forall h q,
  pubs (out (conns (run h) q)) = sp_out (spec (alog (run h))) q.
Proof. exact (refines bname store async_store). Qed.

(* non-vacuity / the idempotence cases spelled out on the predicate itself *)
Example C08_examples : forall q c t,
  holds (ASub q c :: ASub q c :: t) q c = true /\
  holds (AUnsub q c :: ASub q c :: ASub q c :: t) q c = false /\
  holds (AUnsub q c :: t) q c = false /\
  holds (ASub q c :: AUnsub q c :: ASub q c :: t) q c = true.
Proof. intros. cbn. rewrite Nat.eqb_refl, bytes_eqb_refl. cbn. auto. Qed.
End C08.

(* ---- the same for the code as TRANSLATED from the Python source on every run (harness/pytrans3.py -> BrokerGen.v):
   run_src is the event loop with the translated Server.subscribe/unsubscribe/publish and Connection.on_publish/
   on_subscribe/on_unsubscribe/authenticate/connection_lost/message_received plugged in; BrokerGenRun.run_src_eq proves it
   equal to the model.  These theorems rely on functional_extensionality_dep (Coq standard library) and nothing else. *)
From HP Require Import PyBroker BrokerGen BrokerGenEq BrokerGenRun BrokerGenProps.
Theorem C08_src_run_is_model : forall bname store async_store h, run_src bname store async_store h = run bname store async_store h.
Proof. exact run_src_eq. Qed.
Theorem C08_src_follows_last_op : forall bname store async_store h q c, memc c (active (conns (run_src bname store async_store h) q)) = holds (alog (run_src bname store async_store h)) q c.
Proof. exact src_follows_last_op. Qed.
Theorem C08_src_registry : forall bname store async_store h, (forall c, NoDup (subs (run_src bname store async_store h) c)) /\
  (forall q, NoDup (active (conns (run_src bname store async_store h) q))) /\
  (forall q c, In q (subs (run_src bname store async_store h) c) <-> In c (active (conns (run_src bname store async_store h) q))).
Proof. exact src_registry_nodup. Qed.
Theorem C08_src_subscribe_idempotent : forall q c s, memc c (active (conns s q)) = true -> Server_subscribe q c s = BOk false s.
Proof. exact src_subscribe_idempotent. Qed.
Theorem C08_src_unsubscribe_absent : forall q c s, memc c (active (conns s q)) = false -> Server_unsubscribe q c s = BOk false s.
Proof. exact src_unsubscribe_absent. Qed.

Print Assumptions C08_follows_last_op.
Print Assumptions C08_registry.
Print Assumptions C08_delivery_rule.
Print Assumptions C08_refines.
Print Assumptions C08_src_run_is_model.
Print Assumptions C08_src_follows_last_op.
Print Assumptions C08_src_registry.
Print Assumptions C08_src_subscribe_idempotent.
Print Assumptions C08_src_unsubscribe_absent.
