(* C11 — clients answer each connection's own challenge first, then resubscribe. *)
From Coq Require Import ZArith List Bool.
From HP Require Import Bytes Wire AioSession AioFacts TwSession LegacyClient LegacyFacts LegacyStream LegacyNonce BlkSession BlkFacts.
Import ListNotations.

(* asyncio ClientSession, every list of events (connect outcomes, data chunks of any shape, losses, application
   calls, clock, close): A says that on every connection ever made nothing was written before an OP_INFO arrived and the
   oldest frame written is the OP_AUTH for the first nonce seen on that connection (a_ci), the session only calls a
   connection current after its OP_INFO (a_cur), and on the current connection the net effect of the SUBSCRIBE /
   UNSUBSCRIBE frames written since that OP_AUTH is exactly the wanted set, duplicate-free (a_nodup, a_resub) *)
Theorem C11_asyncio : forall ident secret, (zlen ident <= 255)%Z -> forall es, A (arun ident secret es).
Proof. exact run_A. Qed.

(* Twisted ClientSessionService glue (connecting / retrying itself is ClientService's contract, an input here) *)
Theorem C11_twisted : forall ident secret, (zlen ident <= 255)%Z -> forall es, A (trun ident secret es).
Proof. exact trun_A. Qed.

(* blocking Client: every trace of every run over every socket script is accepted by the handshake automaton ... *)
Theorem C11_legacy_accepted : forall conn recv send subs stop_after fuel,
  accept subs (ltrace (lrun fuel (linit conn recv send subs stop_after))) <> None.
Proof. exact legacy_trace_accepted. Qed.

(* ... which means: the first frame on a connection is the OP_AUTH for the OP_INFO decoded on that connection ... *)
Theorem C11_legacy_first_frame : forall subs tr pre k mid e post,
  accept subs tr <> None -> rev tr = pre ++ LConnected k :: mid ++ e :: post ->
  forallb quiet mid = true -> is_send e = true ->
  exists r, In (LInfo k r) mid /\ (e = LSentAuth k r \/ e = LSendFailed k).
Proof. exact first_frame_is_auth. Qed.

(* ... and before the application sees a message of that connection, SUBSCRIBE went out for exactly the wanted channels *)
Theorem C11_legacy_resubscribes : forall subs tr pre k r mid m post,
  accept subs tr <> None -> rev tr = pre ++ LSentAuth k r :: mid ++ m :: post ->
  forallb no_attempt mid = true -> is_callback m = true ->
  filter is_send mid = map (LSentSub k) subs.
Proof. exact resubscribes_before_delivering. Qed.

(* ... and the nonce it answers is this connection's: for every socket script, whenever an OP_INFO has been decoded on the
   current connection (ghost event LInfo, which by C11_legacy_first_frame is the one the OP_AUTH answers), the bytes
   received on THAT connection (ghost lrx, reset by connect()) begin with an OP_INFO frame carrying exactly that nonce *)
Theorem C11_legacy_nonce_is_this_connections : forall conn recv send subs stop_after fuel,
  let s := lrun fuel (linit conn recv send subs stop_after) in
  forall rand, conn_info (ltrace s) = Some rand ->
  exists nm body tail, lrx s = hdr 1 body ++ tail /\ readinfo body = Some (nm, rand).
Proof. exact legacy_nonce_is_this_connections. Qed.

(* blocking thread session (hpfeeds/blocking/session.py).  The handshake clause is FALSE for it: when_connected is set at
   TCP connect, so an application call made then puts its frame into the outbox before the OP_INFO has arrived and the
   broker sees it before OP_AUTH (known finding F6).  [es] is a concrete history, [c] the resulting connection: no
   OP_INFO decoded, yet its outbox holds the SUBSCRIBE *)
Theorem C11_blocking_session_refuted : forall ident secret, (zlen ident <= 255)%Z ->
  exists es c fr, b_cur (brun ident secret es) = Some c /\ b_nonce c = None /\ b_out c = [fr] /\
                  msgsubscribe ident [Byte.x63] = Some fr.
Proof. exact blk_handshake_refuted. Qed.

(* what does hold, for every history: on every connection (current and past) on which the application did not write
   before the OP_INFO, nothing is put into the outbox before an OP_INFO is decoded and the oldest frame is the OP_AUTH
   for that nonce with the own ident and secret *)
Theorem C11_blocking_session_partial : forall ident secret, (zlen ident <= 255)%Z -> forall es,
  BI ident secret (brun ident secret es).
Proof. exact blk_handshake_partial. Qed.

(* ---- the same for the asyncio session with its application-facing methods TRANSLATED from hpfeeds/asyncio/client.py on every
   run (harness/pytrans6.py -> AioGen.v; AioGenEq.v).  No axioms. *)
From HP Require Import AioGen AioGenEq.
Theorem C11_src_asyncio_subscribe_is_model : forall ident secret c s, ClientSession_subscribe ident secret c s = do_sub ident secret c s.
Proof. exact subscribe_src_eq. Qed.
Theorem C11_src_asyncio_unsubscribe_is_model : forall ident secret c s, ClientSession_unsubscribe ident secret c s = do_unsub ident secret c s.
Proof. exact unsubscribe_src_eq. Qed.
Theorem C11_src_asyncio_run_is_model : forall ident secret es, arun_src ident secret es = arun ident secret es.
Proof. exact arun_src_eq. Qed.
Theorem C11_src_asyncio : forall ident secret, (zlen ident <= 255)%Z -> forall es, A (arun_src ident secret es).
Proof. exact src_run_A. Qed.

Theorem C11_src_asyncio_connection_ready_is_model : forall ident secret k body name rand a s,
  readinfo body = Some (name, rand) -> msgauth rand ident secret = Some a ->
  on_frame ident secret k 1 body s =
  Protocol_connection_ready ident secret k
    (modk k (fun c => mkac (cbuf c) (FAuth rand :: cout c) (cclosing c) (clost c) (caborted c)
                           (match cnonce c with None => Some rand | n => n end)) s).
Proof. exact connection_ready_src_eq. Qed.

(* the Twisted ClientSessionService glue, translated from hpfeeds/twisted/service.py on every run (pytrans6.py; TwGenEq.v) *)
From HP Require Import TwSession TwGenEq.
Theorem C11_src_twisted_run_is_model : forall ident secret es, trun_src ident secret es = trun ident secret es.
Proof. exact trun_src_eq. Qed.
Theorem C11_src_twisted : forall ident secret, (zlen ident <= 255)%Z -> forall es, A (trun_src ident secret es).
Proof. exact src_trun_A. Qed.
Theorem C11_src_twisted_connection_ready_is_model : forall ident secret k body name rand a s,
  readinfo body = Some (name, rand) -> msgauth rand ident secret = Some a ->
  on_frame ident secret k 1 body s =
  TwProtocol_connection_ready ident secret k
    (modk k (fun c => mkac (cbuf c) (FAuth rand :: cout c) (cclosing c) (clost c) (caborted c)
                           (match cnonce c with None => Some rand | n => n end)) s).
Proof. exact tw_connection_ready_src_eq. Qed.

(* the blocking thread session, its application-facing methods translated from hpfeeds/blocking/session.py on every run (pytrans7.py; BlkGenEq.v) *)
From HP Require Import BlkSession BlkFacts BlkGen BlkGenEq.
Theorem C11_src_blocking_session_subscribe_is_model : forall ident secret c s, BlkSession_subscribe ident secret c s = bstep ident secret s (BApp (FSub c)).
Proof. exact blk_subscribe_src_eq. Qed.
Theorem C11_src_blocking_session_run_is_model : forall ident secret es, brun_src ident secret es = brun ident secret es.
Proof. exact brun_src_eq. Qed.

(* Reactor._connect, translated from hpfeeds/blocking/reactor.py on every run (pytrans5.py): a new connection of the blocking
   session starts with a fresh, empty outbox and no unsent bytes - nothing written before it can precede its OP_AUTH *)
From HP Require Import Reactor PyReactor ReactorGen ReactorGenEq.
Theorem C11_src_reactor_connect_fresh : forall r, outbox (Reactor_connect r) = [] /\ buffer (Reactor_connect r) = [] /\
  sent (Reactor_connect r) = sent r /\ puts (Reactor_connect r) = puts r.
Proof. exact connect_fresh_src. Qed.

Print Assumptions C11_asyncio.
Print Assumptions C11_blocking_session_refuted.
Print Assumptions C11_blocking_session_partial.
Print Assumptions C11_twisted.
Print Assumptions C11_legacy_accepted.
Print Assumptions C11_legacy_first_frame.
Print Assumptions C11_legacy_resubscribes.
Print Assumptions C11_legacy_nonce_is_this_connections.
Print Assumptions C11_src_asyncio_subscribe_is_model.
Print Assumptions C11_src_asyncio_unsubscribe_is_model.
Print Assumptions C11_src_asyncio_run_is_model.
Print Assumptions C11_src_asyncio.
Print Assumptions C11_src_asyncio_connection_ready_is_model.
Print Assumptions C11_src_twisted_run_is_model.
Print Assumptions C11_src_twisted.
Print Assumptions C11_src_twisted_connection_ready_is_model.
Print Assumptions C11_src_blocking_session_subscribe_is_model.
Print Assumptions C11_src_blocking_session_run_is_model.
Print Assumptions C11_src_reactor_connect_fresh.
