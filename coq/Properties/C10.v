(* C10 — one connection's misbehaviour never harms another connection. *)
From Coq Require Import ZArith List Bool.
From HP Require Import Bytes Sha1 Wire Broker BrokerSpec BrokerInv BrokerStep BrokerTrace BrokerLocal BrokerProps BrokerProps2 BrokerBenign.
Import ListNotations.

Section C10.
Variable bname : bytes. Variable store : ident -> lookup. Variable async_store : bool.
Notation run := (run bname store async_store).
Notation step := (step bname store async_store).

(* untouched c c' : every field of the connection record is the same, except that PUBLISH frames may have
   been appended to what was written to it; and if it was not closing it still is not, is still registered
   and holds the same subscriptions (if it WAS already closing, the broker may have reaped it). *)

(* frame locality: whatever connection p's event is — arbitrary bytes, bad frames, unauthorised requests,
   redundant (un)subscribes, EOF, loss, a lookup verdict, back-pressure — in whatever reachable state,
   every other connection q is untouched *)
Theorem C10_frame_local : forall h e p q, actor e = Some p -> q <> p ->
  untouched (conns (run h) q) (conns (step (run h) e) q).
Proof. exact (frame_local_run bname store async_store). Qed.

(* time passing touches only connections that are themselves on a back-pressure deadline *)
Theorem C10_tick_local : forall h q, timer (conns (run h) q) = None ->
  untouched (conns (run h) q) (conns (step (run h) Tick) q).
Proof. exact (tick_local_run bname store async_store). Qed.

(* nothing is lost, duplicated, reordered or corrupted for anybody: deliveries are exactly the spec's *)
Theorem C10_deliveries_exact : forall h q,
  pubs (out (conns (run h) q)) = sp_out (spec (alog (run h))) q.
Proof. exact (refines bname store async_store). Qed.

(* handling any chunk terminates: the fuel the model gives process_pending is never exhausted and the
   buffer never grows while it is drained *)
Theorem C10_terminates : forall fuel q s, (blen s q < fuel)%nat ->
  not_fuel (pp store async_store fuel q s) /\ (blen (st (pp store async_store fuel q s)) q <= blen s q)%nat.
Proof. exact (pp_term bname store async_store). Qed.

(* a well-behaved request never gets its sender disconnected *)
Theorem C10_permitted_subscribe_ok : forall q c s, In c (subchans (conns s q)) -> copen (conns s q) = true ->
  on_subscribe q c s = Ok (sub q c s).
Proof. exact permitted_subscribe_ok. Qed.
(* ... nor does any accepted request start closing ANYBODY: a permitted SUBSCRIBE, any UNSUBSCRIBE and a PUBLISH under the
   own identity on a permitted channel are accepted (no error, no exception) and leave the closing flag of every
   connection as it was (Server.publish may reap a subscriber that was already closing; it never starts a close) *)
Theorem C10_permitted_subscribe : forall q c s, In c (subchans (conns s q)) -> copen (conns s q) = true ->
  on_subscribe q c s = Ok (sub q c s) /\ sameclosing s (sub q c s).
Proof. exact permitted_subscribe. Qed.
Theorem C10_any_unsubscribe : forall q c s, copen (conns s q) = true ->
  on_unsubscribe q c s = Ok (unsub q c s) /\ sameclosing s (unsub q c s).
Proof. exact any_unsubscribe. Qed.
Theorem C10_permitted_publish : forall q me c d s, Good store async_store s ->
  ak (conns s q) = Some me -> In c (pubchans (conns s q)) -> copen (conns s q) = true ->
  exists s', on_publish q me c d s = Ok s' /\ sameclosing s s' /\ Good store async_store s'.
Proof. exact (permitted_publish store async_store). Qed.
End C10.

Print Assumptions C10_frame_local.
Print Assumptions C10_tick_local.
Print Assumptions C10_deliveries_exact.
Print Assumptions C10_terminates.
Print Assumptions C10_permitted_subscribe_ok.
Print Assumptions C10_permitted_subscribe.
Print Assumptions C10_any_unsubscribe.
Print Assumptions C10_permitted_publish.
