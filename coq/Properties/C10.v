(* C10 — one connection's misbehaviour never harms another connection. *)
From Coq Require Import ZArith List Bool.
From HP Require Import Bytes Sha1 Wire Broker BrokerSpec BrokerInv BrokerStep BrokerTrace BrokerLocal BrokerProps BrokerProps2 BrokerBenign BrokerBlame BrokerWellBehaved BrokerWellBehavedAsync.
Import ListNotations.

Section C10.
Variable bname : bytes. Variable store : ident -> lookup. Variable async_store : bool.
Notation run := (run bname store async_store).
Notation step := (step bname store async_store).

(* untouched c c' : every field of the connection record is the same, except that PUBLISH frames may have
   been appended to what was written to it; and if it was not closing it still is not, is still registered
   and holds the same subscriptions (if it WAS already closing, the broker may have reaped it). *)

(* frame locality: whatever connection p's event is — arbitrary bytes, bad frames, unauthorised requests,
   redundant (un)subscribes, EOF, loss, a lookup verdict, back-pressure — in whatever reachable state,
   every other connection q is untouched *)
Theorem C10_frame_local : forall h e p q, actor e = Some p -> q <> p ->
  untouched (conns (run h) q) (conns (step (run h) e) q).
Proof. exact (frame_local_run bname store async_store). Qed.

(* time passing touches only connections that are themselves on a back-pressure deadline *)
Theorem C10_tick_local : forall h q, timer (conns (run h) q) = None ->
  untouched (conns (run h) q) (conns (step (run h) Tick) q).
Proof. exact (tick_local_run bname store async_store). Qed.

(* nothing is lost, duplicated, reordered or corrupted for anybody: deliveries are exactly the spec's *)
Theorem C10_deliveries_exact : forall h q,
  pubs (out (conns (run h) q)) = sp_out (spec (alog (run h))) q.
Proof. exact (refines bname store async_store). Qed.

(* handling any chunk terminates: the fuel the model gives process_pending is never exhausted and the
   buffer never grows while it is drained *)
Theorem C10_terminates : forall fuel q s, (blen s q < fuel)%nat ->
  not_fuel (pp store async_store fuel q s) /\ (blen (st (pp store async_store fuel q s)) q <= blen s q)%nat.
Proof. exact (pp_term bname store async_store). Qed.

(* a well-behaved request never gets its sender disconnected *)
Theorem C10_permitted_subscribe_ok : forall q c s, In c (subchans (conns s q)) -> copen (conns s q) = true ->
  on_subscribe q c s = Ok (sub q c s).
Proof. exact permitted_subscribe_ok. Qed.
(* ... nor does any accepted request start closing ANYBODY: a permitted SUBSCRIBE, any UNSUBSCRIBE and a PUBLISH under the
   own identity on a permitted channel are accepted (no error, no exception) and leave the closing flag of every
   connection as it was (Server.publish may reap a subscriber that was already closing; it never starts a close) *)
Theorem C10_permitted_subscribe : forall q c s, In c (subchans (conns s q)) -> copen (conns s q) = true ->
  on_subscribe q c s = Ok (sub q c s) /\ sameclosing s (sub q c s).
Proof. exact permitted_subscribe. Qed.
Theorem C10_any_unsubscribe : forall q c s, copen (conns s q) = true ->
  on_unsubscribe q c s = Ok (unsub q c s) /\ sameclosing s (unsub q c s).
Proof. exact any_unsubscribe. Qed.
Theorem C10_permitted_publish : forall q me c d s, Good (srow store) async_store s ->
  ak (conns s q) = Some me -> In c (pubchans (conns s q)) -> copen (conns s q) = true ->
  exists s', on_publish q me c d s = Ok s' /\ sameclosing s s' /\ Good (srow store) async_store s'.
Proof. exact (permitted_publish store async_store). Qed.

(* ---- over whole histories ---- *)
(* own q s e := e is an event of connection q itself (its connection being made, its bytes, its EOF or loss, the verdict
   of its own credential lookup, its own back-pressure), or a clock tick while q is on a back-pressure deadline.
   foreign q s h := no event of the stretch h, played from state s, is q's own. *)

(* whatever all the OTHER connections do after h1, for however long - arbitrary bytes, bad frames, unauthorised requests,
   disconnects, never reading, deadlines expiring - connection q is untouched: same identity, permissions, buffer and
   flags, only PUBLISH frames were added to what it was sent, and if it was open, not closing and subscribed, it still is *)
Theorem C10_others_cannot_touch : forall q h1 h2, foreign bname store async_store q (run h1) h2 ->
  untouched (conns (run h1) q) (conns (run (h1 ++ h2)) q).
Proof. exact (others_cannot_touch bname store async_store). Qed.

(* blame: whenever a connection is found closing, the event at which it became closing was its own *)
Theorem C10_closing_blame : forall h q, closing (conns (run h) q) = true ->
  exists h1 e h2, h = h1 ++ e :: h2 /\ closing (conns (run h1) q) = false /\
                  closing (conns (run (h1 ++ [e])) q) = true /\ own q (run h1) e.
Proof. exact (closing_blame bname store async_store). Qed.
End C10.

Section C10wb.
Variable bname : bytes. Variable store : ident -> lookup.
(* wb_frames n cur fs: the requests fs of a client that was sent nonce n and last authenticated as cur are all permitted:
     OP_AUTH (i, SHA1(n ++ secret stored for i)); OP_PUBLISH under the own identity on a channel of its publish list;
     OP_SUBSCRIBE on a channel of its subscribe list; any OP_UNSUBSCRIBE.
   wb_chunk q s cur chunk: what is buffered for q plus chunk = such well-formed requests ++ an incomplete tail.
   wb_hist q s h: every event of h is either not q's own, or q's connection being made, or data from q that is
     well-formed and permitted when it arrives (so q never hangs up, is never reported lost, never stalls). *)

(* one read of pipelined, permitted requests: all accepted, the connection stays healthy, the clock is not started *)
Theorem C10_permitted_data : forall q s cur chunk, Good (srow store) false s -> healthy s q -> agrees s q cur ->
  wb_chunk store q s cur chunk ->
  healthy (do_data store false q chunk s) q /\
  timer (conns (do_data store false q chunk s) q) = timer (conns s q).
Proof. exact (do_data_wb store). Qed.

(* FOR EVERY HISTORY (synchronous store): a well-behaved connection is never disconnected, whatever the others do *)
Theorem C10_well_behaved_never_closed : forall h q, wb_hist bname store q state0 h ->
  closing (conns (Broker.run bname store false h) q) = false /\
  (made (conns (Broker.run bname store false h) q) = true -> copen (conns (Broker.run bname store false h) q) = true).
Proof. exact (well_behaved_never_closed bname store). Qed.

(* the same with an ASYNCHRONOUS store.  wb_hist_a q s h: every event of h is not q's own, or q's connection being made,
   or a read that starts with a well-formed OP_AUTH (whatever is behind it stays parked), or the verdict for q's oldest
   pending OP_AUTH being the row whose secret the digest was made with while the parked requests are permitted under that
   row, or a read of requests permitted under q's current identity (wb_plain: PUBLISH under the own identity on a
   permitted channel, permitted SUBSCRIBE, any UNSUBSCRIBE). *)
Theorem C10_well_behaved_never_closed_async : forall h q, wb_hist_a bname store q state0 h ->
  closing (conns (Broker.run bname store true h) q) = false /\
  (made (conns (Broker.run bname store true h) q) = true -> copen (conns (Broker.run bname store true h) q) = true).
Proof. exact (well_behaved_never_closed_async bname store). Qed.
End C10wb.

(* ---- the same for the code as TRANSLATED from the Python source on every run (harness/pytrans3.py -> BrokerGen.v):
   run_src is the event loop with the translated Server.subscribe/unsubscribe/publish and Connection.on_publish/
   on_subscribe/on_unsubscribe/authenticate/connection_lost/message_received plugged in; BrokerGenRun.run_src_eq proves it
   equal to the model.  These theorems rely on functional_extensionality_dep (Coq standard library) and nothing else. *)
From HP Require Import PyBroker BrokerGen BrokerGenEq BrokerGenRun BrokerGenProps.
Theorem C10_src_run_is_model : forall bname store async_store h, run_src bname store async_store h = run bname store async_store h.
Proof. exact run_src_eq. Qed.
Theorem C10_src_deliveries_exact : forall bname store async_store h q, pubs (out (conns (run_src bname store async_store h) q)) = sp_out (spec (alog (run_src bname store async_store h))) q.
Proof. exact src_refines. Qed.
Theorem C10_src_good : forall bname store async_store h, Good (srow store) async_store (run_src bname store async_store h).
Proof. exact src_good. Qed.

Theorem C10_src_frame_loop_is_model : forall store async_store ppk q s,
  to_res (BaseProtocol_process_pending store async_store ppk q s) = pp_step store async_store (ppk q) q s.
Proof. exact BaseProtocol_process_pending_eq. Qed.
Theorem C10_src_no_protocol_exception_escapes : forall store async_store pp q op body s, np (Connection_message_received store async_store pp q op body s).
Proof. exact conn_mr_np. Qed.
Theorem C10_src_one_frame_is_model : forall store async_store pp q op body s, (0 <= op <= 5)%Z ->
  to_resb (Connection_message_received store async_store pp q op body s) = handle store async_store (pp q) q op body s.
Proof. exact handle_src_eq. Qed.

Print Assumptions C10_frame_local.
Print Assumptions C10_tick_local.
Print Assumptions C10_deliveries_exact.
Print Assumptions C10_terminates.
Print Assumptions C10_permitted_subscribe_ok.
Print Assumptions C10_permitted_subscribe.
Print Assumptions C10_any_unsubscribe.
Print Assumptions C10_permitted_publish.
Print Assumptions C10_others_cannot_touch.
Print Assumptions C10_closing_blame.
Print Assumptions C10_permitted_data.
Print Assumptions C10_well_behaved_never_closed.
Print Assumptions C10_well_behaved_never_closed_async.
Print Assumptions C10_src_run_is_model.
Print Assumptions C10_src_deliveries_exact.
Print Assumptions C10_src_good.
Print Assumptions C10_src_frame_loop_is_model.
Print Assumptions C10_src_no_protocol_exception_escapes.
Print Assumptions C10_src_one_frame_is_model.
