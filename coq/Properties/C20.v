(* C20 — blocking write path: whole frames, FIFO, no loss under partial sends. *)
From Coq Require Import ZArith List Bool.
From HP Require Import Bytes Reactor.
Import ListNotations.

(* rrun es: the reactor after any sequence of Put f (a frame handed to Reactor.write from any thread) and
   Iter o (one pass of _select with send outcome o: Accept k bytes, 1 <= k <= len, or EAGAIN/EWOULDBLOCK).
   sent = bytes that reached the socket; buffer = unsent tail of the frame in flight; outbox = queued frames;
   puts = every frame ever handed over, in order (ghost). *)
Theorem C20_conservation : forall es,
  sent (rrun es) ++ buffer (rrun es) ++ concat (outbox (rrun es)) = concat (puts (rrun es)).
Proof. exact conservation. Qed.
Theorem C20_sent_is_prefix : forall es, exists rest, concat (puts (rrun es)) = sent (rrun es) ++ rest.
Proof. exact sent_is_prefix. Qed.
(* no loss: once the socket takes at least a byte per pass, everything handed over gets out, complete and in order *)
Theorem C20_drains : forall n s, (backlog s <= n)%nat ->
  let s' := fold_left rstep (repeat (Iter (Accept 1)) n) s in
  buffer s' = [] /\ outbox s' = [] /\ sent s' = sent s ++ buffer s ++ concat (outbox s).
Proof. exact drains. Qed.
Theorem C20_progress : forall k s, (backlog s > 0)%nat -> (backlog (rstep s (Iter (Accept k))) < backlog s)%nat.
Proof. exact iter_progress. Qed.

(* the wake-up queue, for every interleaving of the producers' and the consumer's sub-steps:
   select()-readable (wake bytes) = items held whenever no put/get is half-way; a get that consumed a byte
   always finds an item; items come out in put order *)
Theorem C20_queue_readable_iff_nonempty : forall es, pputs (qrun es) = O -> pgets (qrun es) = O ->
  wake (qrun es) = length (items (qrun es)).
Proof. exact queue_readable_iff_nonempty. Qed.
Theorem C20_queue_get_never_empty : forall es, (pgets (qrun es) > 0)%nat -> items (qrun es) <> [].
Proof. exact queue_get_never_empty. Qed.
Theorem C20_queue_fifo : forall es, exists rest, putlog (qrun es) = got (qrun es) ++ rest.
Proof. exact queue_fifo. Qed.

(* ---- the same for the write path as TRANSLATED from hpfeeds/blocking/reactor.py on every run (harness/pytrans5.py ->
   ReactorGen.v; ReactorGenEq.v): what sock.send / get_nowait do on a call is an oracle argument.  No axioms. *)
From HP Require Import PyReactor ReactorGen ReactorGenEq.
Theorem C20_src_write_is_model : forall f r l, Reactor_write f (mkp r l) = POk None (mkp (rstep r (Put f)) l).
Proof. exact write_src_eq. Qed.
Theorem C20_src_partial_send : forall n r l, (1 <= n <= length (buffer r))%nat ->
  Reactor_socket_write_ready (SendN n) (mkp r l) = POk (Some true) (mkp (write_ready (Accept n) r) l).
Proof. exact write_ready_src_accept. Qed.
Theorem C20_src_would_block : forall e r l, e = EAGAIN \/ e = EWOULDBLOCK ->
  Reactor_socket_write_ready (SendErr e) (mkp r l) = POk (Some true) (mkp (write_ready WouldBlock r) l).
Proof. exact write_ready_src_block. Qed.
Theorem C20_src_zero_send_loses_connection : forall r l, Reactor_socket_write_ready (SendN 0) (mkp r l) = POk (Some false) (mkp r true).
Proof. exact write_ready_src_zero. Qed.
Theorem C20_src_other_error_propagates : forall r l, Reactor_socket_write_ready (SendErr EOTHER) (mkp r l) = PSockErr EOTHER (mkp r l).
Proof. exact write_ready_src_error. Qed.
Theorem C20_src_run_is_model : forall es, rrun_src es = rrun es.
Proof. exact rrun_src_eq. Qed.
Theorem C20_src_conservation : forall es, conserved (rrun_src es).
Proof. exact src_conservation. Qed.
Theorem C20_src_sent_is_prefix : forall es, exists rest, concat (puts (rrun_src es)) = sent (rrun_src es) ++ rest.
Proof. exact src_sent_is_prefix. Qed.

Theorem C20_src_queue_steps : forall x, Queue_put x = [PutItem x; PutWake] /\ Queue_get = [GetWake; GetItem].
Proof. exact (fun x => conj eq_refl eq_refl). Qed.
Theorem C20_src_queue_whole_calls : forall calls,
  let s := qrun (concat (map qcall_steps calls)) in
  pputs s = O /\ pgets s = O /\ wake s = length (items s).
Proof. exact src_queue_whole_calls. Qed.

Theorem C20_src_select_pass_is_model : forall rr s e, rstep_sel rr s e = rstep s e.
Proof. exact rstep_sel_eq. Qed.
Theorem C20_src_select_run_is_model : forall rr es, rrun_sel rr es = rrun es.
Proof. exact rrun_sel_eq. Qed.

Print Assumptions C20_conservation.
Print Assumptions C20_sent_is_prefix.
Print Assumptions C20_drains.
Print Assumptions C20_progress.
Print Assumptions C20_queue_readable_iff_nonempty.
Print Assumptions C20_queue_get_never_empty.
Print Assumptions C20_queue_fifo.
Print Assumptions C20_src_write_is_model.
Print Assumptions C20_src_partial_send.
Print Assumptions C20_src_would_block.
Print Assumptions C20_src_zero_send_loses_connection.
Print Assumptions C20_src_other_error_propagates.
Print Assumptions C20_src_run_is_model.
Print Assumptions C20_src_conservation.
Print Assumptions C20_src_sent_is_prefix.
Print Assumptions C20_src_queue_steps.
Print Assumptions C20_src_queue_whole_calls.
Print Assumptions C20_src_select_pass_is_model.
Print Assumptions C20_src_select_run_is_model.
