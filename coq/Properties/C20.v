(* C20 — blocking write path: whole frames, FIFO, no loss under partial sends. *)
From Coq Require Import ZArith List Bool.
From HP Require Import Bytes Reactor.
Import ListNotations.

(* rrun es: the reactor after any sequence of Put f (a frame handed to Reactor.write from any thread) and
   Iter o (one pass of _select with send outcome o: Accept k bytes, 1 <= k <= len, or EAGAIN/EWOULDBLOCK).
   sent = bytes that reached the socket; buffer = unsent tail of the frame in flight; outbox = queued frames;
   puts = every frame ever handed over, in order (ghost). *)
Theorem C20_conservation : forall es,
  sent (rrun es) ++ buffer (rrun es) ++ concat (outbox (rrun es)) = concat (puts (rrun es)).
Proof. exact conservation. Qed.
Theorem C20_sent_is_prefix : forall es, exists rest, concat (puts (rrun es)) = sent (rrun es) ++ rest.
Proof. exact sent_is_prefix. Qed.
(* no loss: once the socket takes at least a byte per pass, everything handed over gets out, complete and in order *)
Theorem C20_drains : forall n s, (backlog s <= n)%nat ->
  let s' := fold_left rstep (repeat (Iter (Accept 1)) n) s in
  buffer s' = [] /\ outbox s' = [] /\ sent s' = sent s ++ buffer s ++ concat (outbox s).
Proof. exact drains. Qed.
Theorem C20_progress : forall k s, (backlog s > 0)%nat -> (backlog (rstep s (Iter (Accept k))) < backlog s)%nat.
Proof. exact iter_progress. Qed.

(* the wake-up queue, for every interleaving of the producers' and the consumer's sub-steps:
   select()-readable (wake bytes) = items held whenever no put/get is half-way; a get that consumed a byte
   always finds an item; items come out in put order *)
Theorem C20_queue_readable_iff_nonempty : forall es, pputs (qrun es) = O -> pgets (qrun es) = O ->
  wake (qrun es) = length (items (qrun es)).
Proof. exact queue_readable_iff_nonempty. Qed.
Theorem C20_queue_get_never_empty : forall es, (pgets (qrun es) > 0)%nat -> items (qrun es) <> [].
Proof. exact queue_get_never_empty. Qed.
Theorem C20_queue_fifo : forall es, exists rest, putlog (qrun es) = got (qrun es) ++ rest.
Proof. exact queue_fifo. Qed.

Print Assumptions C20_conservation.
Print Assumptions C20_sent_is_prefix.
Print Assumptions C20_drains.
Print Assumptions C20_progress.
Print Assumptions C20_queue_readable_iff_nonempty.
Print Assumptions C20_queue_get_never_empty.
Print Assumptions C20_queue_fifo.
