(* C02 — nothing is acted on before a valid OP_AUTH for this connection's own nonce. *)
From Coq Require Import ZArith List Bool.
From HP Require Import Bytes Sha1 Wire Broker BrokerSpec BrokerInv BrokerProps BrokerStores.
Import ListNotations.

Section C02.
Variable bname : bytes. Variable store : ident -> lookup. Variable async_store : bool.
Notation run := (run bname store async_store).

(* the first thing written on every connection is OP_INFO with the broker's name and the nonce drawn
   for that connection (out is newest first) *)
Theorem C02_info_first : forall h q, made (conns (run h) q) = true ->
  exists l, out (conns (run h) q) = l ++ [FInfo bname (nonce (conns (run h) q))].
Proof. exact (info_first bname store async_store). Qed.

(* every subscribe, unsubscribe or publish the broker ever acted on was preceded, on that connection,
   by an accepted AUTH ... *)
Theorem C02_acted_on_after_auth : forall h l1 a t, alog (run h) = l1 ++ a :: t ->
  match a with
  | ASub q _ | AUnsub q _ | APub q _ _ _ => last_auth t q <> None
  | _ => True
  end.
Proof. exact (acted_on_after_auth bname store async_store). Qed.

(* ... and an AUTH is accepted only if its digest is SHA1(this connection's nonce ++ the secret of the
   row the store holds for the claimed ident) — list equality, so prefixes, 19/21 bytes, the empty
   digest and digests for another connection's nonce are all excluded *)
Theorem C02_auth_legit : forall h q i r, last_auth (alog (run h)) q = Some (i, r) ->
  exists l1 dg t n, alog (run h) = l1 ++ AAuth q i r dg :: t /\ conn_nonce t q = Some n /\
    dg = sha1 (n ++ r_secret r) /\ (async_store = false -> store i = LRow r).
Proof. exact (auth_legit bname store async_store). Qed.

(* the state agrees with the log: a connection counts as authenticated iff the log says so *)
Theorem C02_state_is_log : forall h q,
  match last_auth (alog (run h)) q with
  | Some (i, r) => ak (conns (run h) q) = Some i /\ pubchans (conns (run h) q) = r_pub r /\
                   subchans (conns (run h) q) = r_sub r
  | None => ak (conns (run h) q) = None
  end.
Proof. exact (state_is_log bname store async_store). Qed.

(* refusals: OP_ERROR + disconnect, nothing else *)
Theorem C02_preauth_reject : forall k q op body s, ak (conns s q) = None -> op <> 2%Z ->
  handle store async_store k q op body s = (Ok (bad q s), false).
Proof. exact (preauth_reject store async_store). Qed.
Theorem C02_unknown_ident_reject : forall k q i dg s, authenticate k q i dg LNone s = Ok (bad q s).
Proof. exact unknown_ident_reject. Qed.
Theorem C02_wrong_digest_reject : forall k q i dg r s, dg <> sha1 (nonce (conns s q) ++ r_secret r) ->
  authenticate k q i dg (LRow r) s = Ok (bad q s).
Proof. exact wrong_digest_reject. Qed.
Theorem C02_refusal_effect : forall q s,
  closing (conns (bad q s) q) = true /\
  out (conns (bad q s) q) = (if lost (conns s q) || aborted (conns s q) then out (conns s q)
                             else FError :: out (conns s q)) /\
  active (conns (bad q s) q) = active (conns s q) /\ ak (conns (bad q s) q) = ak (conns s q) /\
  (forall q', q' <> q -> conns (bad q s) q' = conns s q') /\ subs (bad q s) = subs s /\
  (alog (bad q s) = alog s \/ alog (bad q s) = AClose q :: alog s).
Proof. exact bad_effect. Qed.
End C02.

(* ---- a store whose contents change while the broker runs (a reloaded user file, a rotated secret, a removed user).
   runs bname async segs = the broker after the segments segs = [(store_1, events_1); (store_2, events_2); ...], each list
   of callbacks played under the store then in effect.  Every accepted OP_AUTH - whenever it happened - answered its own
   connection's nonce with the secret of a row that SOME store of the history held for the claimed ident (list equality:
   prefixes, other nonces, secrets never stored are all excluded); for one segment this is C02_auth_legit. ---- *)
Theorem C02_changing_store_auth_legit : forall bname async segs l1 q i r dg t,
  alog (runs bname async segs) = l1 ++ AAuth q i r dg :: t ->
  exists n, conn_nonce t q = Some n /\ dg = sha1 (n ++ r_secret r) /\ (async = false -> vouched segs i r).
Proof. exact runs_auth_legit. Qed.
(* ... and every invariant (registry, refinement of the abstract machine, log legitimacy) holds for such histories *)
Theorem C02_changing_store_good : forall bname async segs, Good (vouched segs) async (runs bname async segs).
Proof. exact runs_good. Qed.

(* ---- the same for the code as TRANSLATED from the Python source on every run (harness/pytrans3.py -> BrokerGen.v):
   run_src is the event loop with the translated Server.subscribe/unsubscribe/publish and Connection.on_publish/
   on_subscribe/on_unsubscribe/authenticate/connection_lost/message_received plugged in; BrokerGenRun.run_src_eq proves it
   equal to the model.  These theorems rely on functional_extensionality_dep (Coq standard library) and nothing else. *)
From HP Require Import PyBroker BrokerGen BrokerGenEq BrokerGenRun BrokerGenProps.
Theorem C02_src_run_is_model : forall bname store async_store h, run_src bname store async_store h = run bname store async_store h.
Proof. exact run_src_eq. Qed.
Theorem C02_src_auth_legit : forall bname store async_store h q i r, last_auth (alog (run_src bname store async_store h)) q = Some (i, r) ->
  exists l1 dg t n, alog (run_src bname store async_store h) = l1 ++ AAuth q i r dg :: t /\ conn_nonce t q = Some n /\
    dg = sha1 (n ++ r_secret r) /\ (async_store = false -> store i = LRow r).
Proof. exact src_auth_legit. Qed.
Theorem C02_src_acted_on_after_auth : forall bname store async_store h l1 a t, alog (run_src bname store async_store h) = l1 ++ a :: t ->
  match a with ASub q _ | AUnsub q _ | APub q _ _ _ => last_auth t q <> None | _ => True end.
Proof. exact src_acted_on_after_auth. Qed.
Theorem C02_src_preauth_reject : forall store async_store pp q op body s, ak (conns s q) = None -> op <> 2%Z -> Connection_message_received store async_store pp q op body s = BOk false (bad q s).
Proof. exact src_preauth_reject. Qed.
Theorem C02_src_unknown_ident_reject : forall pp q i dg s, Connection_authenticate pp q i dg LNone s = BOk false (bad q s).
Proof. exact src_unknown_ident_reject. Qed.
Theorem C02_src_wrong_digest_reject : forall pp q i dg r s, dg <> sha1 (nonce (conns s q) ++ r_secret r) -> Connection_authenticate pp q i dg (LRow r) s = BOk false (bad q s).
Proof. exact src_wrong_digest_reject. Qed.

Theorem C02_src_info_first : forall bname store async_store h q, made (conns (run_src bname store async_store h) q) = true ->
  exists l, out (conns (run_src bname store async_store h) q) = l ++ [FInfo bname (nonce (conns (run_src bname store async_store h) q))].
Proof. exact src_info_first. Qed.
Theorem C02_src_connection_made_is_model : forall bname q n s, made (conns s q) = false -> Connection_connection_made bname q (p_new_conn q n s) = BOk false (do_connect bname q n s).
Proof. exact Connection_connection_made_eq. Qed.

Print Assumptions C02_info_first.
Print Assumptions C02_acted_on_after_auth.
Print Assumptions C02_auth_legit.
Print Assumptions C02_state_is_log.
Print Assumptions C02_preauth_reject.
Print Assumptions C02_unknown_ident_reject.
Print Assumptions C02_wrong_digest_reject.
Print Assumptions C02_refusal_effect.
Print Assumptions C02_changing_store_auth_legit.
Print Assumptions C02_changing_store_good.
Print Assumptions C02_src_run_is_model.
Print Assumptions C02_src_auth_legit.
Print Assumptions C02_src_acted_on_after_auth.
Print Assumptions C02_src_preauth_reject.
Print Assumptions C02_src_unknown_ident_reject.
Print Assumptions C02_src_wrong_digest_reject.
Print Assumptions C02_src_info_first.
Print Assumptions C02_src_connection_made_is_model.
