(* C17 — credential stores return exactly what was configured, for exactly those idents. *)
From Coq Require Import ZArith List Bool String.
Open Scope string_scope.
Open Scope list_scope.
From HP Require Import Bytes Stores StoresFacts StoresRun.
Import ListNotations.

(* in-memory store: a mapping ident -> row (None / empty = not usable) *)
Theorem C17_mem_hit : forall creds i c, NoDup (map fst creds) -> In (i, Some c) creds -> mem_get creds i = Some c.
Proof. exact mem_hit. Qed.
Theorem C17_mem_miss : forall creds i, ~ In i (map fst creds) -> mem_get creds i = None.
Proof. exact mem_miss. Qed.
Theorem C17_mem_exact : forall creds i c, mem_get creds i = Some c -> In (i, Some c) creds.
Proof. exact mem_exact. Qed.

(* SQLite store: byte-exact match on the ident column (bound parameter), whatever the string contains *)
Theorem C17_sql_hit : forall rows r, NoDup (map s_ident rows) -> In r rows -> sql_get rows (s_ident r) = Some (cred_of r).
Proof. exact sql_hit. Qed.
Theorem C17_sql_miss : forall rows i, ~ In i (map s_ident rows) -> sql_get rows i = None.
Proof. exact sql_miss. Qed.
Theorem C17_sql_exact : forall rows i c, sql_get rows i = Some c -> exists r, In r rows /\ s_ident r = i /\ c = cred_of r.
Proof. exact sql_exact. Qed.

(* environment store, for any upper-casing function: a variable name determines identity (up to case) and
   field, an identity's answer depends only on its own four variables, missing/empty channel lists grant
   nothing, nobody is granted the channel '', identities equal up to case are the same identity *)
Theorem C17_env_key_injective : forall upper i1 f1 i2 f2, In f1 FIELDS -> In f2 FIELDS ->
  env_key upper i1 f1 = env_key upper i2 f2 -> upper i1 = upper i2 /\ f1 = f2.
Proof. exact env_key_injective. Qed.
Theorem C17_env_own_variables : forall upper (env env' : list (bytes * bytes)) i,
  (forall f, In f FIELDS -> assocb (env_key upper i f) env' = assocb (env_key upper i f) env) ->
  env_get upper env' i = env_get upper env i.
Proof. exact env_get_own. Qed.
Theorem C17_env_hit : forall upper (env : list (bytes * bytes)) i s,
  assocb (env_key upper i (B "SECRET")) env = Some s -> s <> [] ->
  env_get upper env i = Some (mkcred s (match assocb (env_key upper i (B "OWNER")) env with Some o => o | None => i end)
                                     (env_list upper env i (B "PUBCHANS")) (env_list upper env i (B "SUBCHANS"))).
Proof. exact env_hit. Qed.
Theorem C17_env_miss : forall upper (env : list (bytes * bytes)) i,
  assocb (env_key upper i (B "SECRET")) env = None -> env_get upper env i = None.
Proof. exact env_unconfigured. Qed.
Theorem C17_env_no_channels_no_grant : forall upper (env : list (bytes * bytes)) i f,
  assocb (env_key upper i f) env = None \/ assocb (env_key upper i f) env = Some [] -> env_list upper env i f = [].
Proof. exact env_no_channels. Qed.
Theorem C17_env_never_empty_channel : forall upper (env : list (bytes * bytes)) i f, ~ In [] (env_list upper env i f).
Proof. exact env_never_empty_channel. Qed.
Theorem C17_env_case_insensitive : forall upper (env : list (bytes * bytes)) i1 i2, upper i1 = upper i2 ->
  option_map (fun c => (c_secret c, c_pub c, c_sub c)) (env_get upper env i1) =
  option_map (fun c => (c_secret c, c_pub c, c_sub c)) (env_get upper env i2).
Proof. exact env_case_insensitive. Qed.

(* stacked store: the answer of the first member that knows the identity; nothing if none does *)
Theorem C17_multi_first : forall stack i c, multi_get stack i = Some c ->
  exists pre s post, stack = pre ++ s :: post /\ s i = Some c /\ Forall (fun s' => s' i = None) pre.
Proof. exact multi_first. Qed.
Theorem C17_multi_miss : forall stack i, Forall (fun s => s i = None) stack -> multi_get stack i = None.
Proof. exact multi_miss. Qed.

(* ---- the same for json.Authenticator as TRANSLATED from the Python source on every run (harness/pytrans4.py ->
   StoreGen.v; StoreGenEq.v proves the translated load / get_authkey equal to the model).  No axioms. *)
From HP Require Import PyStore StoreGen StoreGenEq.
Theorem C17_src_json_lookup_is_model : forall db i, check_all db = true -> Authenticator_get_authkey i db = SOk (json_get db i) db.
Proof. exact get_authkey_src_eq. Qed.
Theorem C17_src_json_lookup_after_reloads : forall ps i,
  Authenticator_get_authkey i (loads_src ps []) = SOk (json_get (fold_left load ps []) i) (fold_left load ps []).
Proof. exact src_lookup_after_loads. Qed.

Theorem C17_src_memory_lookup_is_model : forall creds i, Memory_get_authkey creds i = mem_get creds i.
Proof. exact memory_src_eq. Qed.
Theorem C17_src_multi_lookup_is_model : forall stack i, Multi_get_authkey stack i = multi_get stack i.
Proof. exact multi_src_eq. Qed.
Theorem C17_src_memory_hit : forall creds i c, NoDup (map fst creds) -> In (i, Some c) creds -> Memory_get_authkey creds i = Some c.
Proof. exact (fun creds i c H1 H2 => eq_trans (memory_src_eq creds i) (mem_hit creds i c H1 H2)). Qed.
Theorem C17_src_multi_miss : forall stack i, Forall (fun s => s i = None) stack -> Multi_get_authkey stack i = None.
Proof. exact (fun stack i H => eq_trans (multi_src_eq stack i) (multi_miss stack i H)). Qed.

Theorem C17_src_env_lookup_is_model : forall upper : bytes -> bytes,
  upper (B "secret") = B "SECRET" -> upper (B "owner") = B "OWNER" ->
  upper (B "pubchans") = B "PUBCHANS" -> upper (B "subchans") = B "SUBCHANS" ->
  forall env i, Env_get_authkey upper env i = env_get upper env i.
Proof. exact env_src_eq. Qed.
Theorem C17_src_env_never_empty_channel : forall upper : bytes -> bytes, forall env i v F, upper v = F -> ~ In [] (Env_get_list upper env i v).
Proof. exact (fun upper env i v F H => eq_ind_r (fun l => ~ In [] l) (env_never_empty_channel upper env i F) (env_list_src upper env i v F H)). Qed.

Theorem C17_src_sqlite_lookup_is_model : forall rows i, Sqlite_get_authkey rows i = sql_get rows i.
Proof. exact sqlite_src_eq. Qed.

Print Assumptions C17_mem_hit.
Print Assumptions C17_mem_miss.
Print Assumptions C17_mem_exact.
Print Assumptions C17_sql_hit.
Print Assumptions C17_sql_miss.
Print Assumptions C17_sql_exact.
Print Assumptions C17_env_key_injective.
Print Assumptions C17_env_own_variables.
Print Assumptions C17_env_hit.
Print Assumptions C17_env_miss.
Print Assumptions C17_env_no_channels_no_grant.
Print Assumptions C17_env_never_empty_channel.
Print Assumptions C17_env_case_insensitive.
Print Assumptions C17_multi_first.
Print Assumptions C17_multi_miss.
Print Assumptions C17_src_json_lookup_is_model.
Print Assumptions C17_src_json_lookup_after_reloads.
Print Assumptions C17_src_memory_lookup_is_model.
Print Assumptions C17_src_multi_lookup_is_model.
Print Assumptions C17_src_memory_hit.
Print Assumptions C17_src_multi_miss.
Print Assumptions C17_src_env_lookup_is_model.
Print Assumptions C17_src_env_never_empty_channel.
Print Assumptions C17_src_sqlite_lookup_is_model.
