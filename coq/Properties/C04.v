(* C04 — a connection only ever receives channels its identity may subscribe to. *)
From Coq Require Import ZArith List Bool.
From HP Require Import Bytes Sha1 Wire Broker BrokerSpec BrokerInv BrokerProps.
Import ListNotations.

Section C04.
Variable bname : bytes. Variable store : ident -> lookup. Variable async_store : bool.
Notation run := (run bname store async_store).

(* whatever q was sent on channel c, q had an accepted SUBSCRIBE for c before, made while it was
   authenticated (i2, row r2) with c on that identity's subscribe list; and q was not closing *)
Theorem C04_confidential : forall h q i c d, In (i, c, d) (pubs (out (conns (run h) q))) ->
  exists l1 p t, alog (run h) = l1 ++ APub p i c d :: t /\
    (exists r, last_auth t p = Some (i, r) /\ In c (r_pub r)) /\
    (exists l2 t2 i2 r2, t = l2 ++ ASub q c :: t2 /\ last_auth t2 q = Some (i2, r2) /\ In c (r_sub r2)) /\
    sp_closed (spec t) q = false.
Proof. exact (delivered_legit bname store async_store). Qed.

(* a SUBSCRIBE outside the list is refused: OP_ERROR, closing, not registered *)
Theorem C04_forbidden_subscribe : forall q c s, ~ In c (subchans (conns s q)) -> on_subscribe q c s = Ok (bad q s).
Proof. exact forbidden_subscribe_reject. Qed.

(* the closing window: once a connection is closing, whatever happens afterwards (any continuation h',
   while its transport still accepts writes) it stays closing and is never sent another PUBLISH *)
Theorem C04_closing_silent : forall h h' q, made (conns (run h) q) = true -> closing (conns (run h) q) = true ->
  closing (conns (run (h ++ h')) q) = true /\
  pubs (out (conns (run (h ++ h')) q)) = pubs (out (conns (run h) q)).
Proof. exact (closing_silent bname store async_store). Qed.
End C04.

(* ---- the same for the code as TRANSLATED from the Python source on every run (harness/pytrans3.py -> BrokerGen.v):
   run_src is the event loop with the translated Server.subscribe/unsubscribe/publish and Connection.on_publish/
   on_subscribe/on_unsubscribe/authenticate/connection_lost/message_received plugged in; BrokerGenRun.run_src_eq proves it
   equal to the model.  These theorems rely on functional_extensionality_dep (Coq standard library) and nothing else. *)
From HP Require Import PyBroker BrokerGen BrokerGenEq BrokerGenRun BrokerGenProps.
Theorem C04_src_run_is_model : forall bname store async_store h, run_src bname store async_store h = run bname store async_store h.
Proof. exact run_src_eq. Qed.
Theorem C04_src_confidential : forall bname store async_store h q i c d, In (i, c, d) (pubs (out (conns (run_src bname store async_store h) q))) ->
  exists l1 p t, alog (run_src bname store async_store h) = l1 ++ APub p i c d :: t /\
    (exists r, last_auth t p = Some (i, r) /\ In c (r_pub r)) /\
    (exists l2 t2 i2 r2, t = l2 ++ ASub q c :: t2 /\ last_auth t2 q = Some (i2, r2) /\ In c (r_sub r2)) /\
    sp_closed (spec t) q = false.
Proof. exact src_delivered_legit. Qed.
Theorem C04_src_forbidden_subscribe : forall q i c s, ~ In c (subchans (conns s q)) -> Connection_on_subscribe q i c s = BOk false (bad q s).
Proof. exact src_forbidden_subscribe_reject. Qed.

Print Assumptions C04_confidential.
Print Assumptions C04_forbidden_subscribe.
Print Assumptions C04_closing_silent.
Print Assumptions C04_src_run_is_model.
Print Assumptions C04_src_confidential.
Print Assumptions C04_src_forbidden_subscribe.
