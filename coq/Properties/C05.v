(* C05 — every message builder is inverted exactly by the decoder.
   Only statements + `exact lemma` + Print Assumptions here. *)
From Coq Require Import ZArith List.
From HP Require Import Bytes Utf8 Sha1 Wire ParamsOK WireRoundtrip.
From HP Require ProtoGen ProtoGenEq ProtoGenProps.
From HP Require Import PyPrim.
Import ProtoGenProps(src_decodes_to).
Import ListNotations.
Open Scope Z_scope.

(* wf_str s   := utf8_valid s = true /\ zlen s <= 255          (a Python str of at most 255 UTF-8 bytes)
   decodes_to limitP fr op body := parse limitP fr = ([(op, body)], [], None)
                                   /\ declared_len fr = Some (zlen fr)
   limitP = SIZES.get(op, MAXBUF) with the constants read from /repo on this run. *)

Theorem C05_info : forall name rand, wf_str name -> zlen rand <= 20 ->
  exists fr body, msginfo name rand = Some fr /\ decodes_to limitP fr 1 body /\
                  readinfo body = Some (name, rand).
Proof. exact WireRoundtrip.C05_info. Qed.

Theorem C05_auth : forall rand ident secret, wf_str ident ->
  exists fr body, msgauth rand ident secret = Some fr /\ decodes_to limitP fr 2 body /\
                  readauth body = Some (ident, sha1 (rand ++ secret)).
Proof. exact WireRoundtrip.C05_auth. Qed.

Theorem C05_publish : forall ident chan data, wf_str ident -> wf_str chan ->
  7 + zlen ident + zlen chan + zlen data <= limitP 3 ->
  exists fr body, msgpublish ident chan data = Some fr /\ decodes_to limitP fr 3 body /\
                  readpublish body = Some (ident, chan, data).
Proof. exact WireRoundtrip.C05_publish. Qed.

Theorem C05_subscribe : forall ident chan, wf_str ident -> wf_str chan ->
  exists fr body, msgsubscribe ident chan = Some fr /\ decodes_to limitP fr 4 body /\
                  readsubscribe body = Some (ident, chan).
Proof. exact WireRoundtrip.C05_subscribe. Qed.

Theorem C05_unsubscribe : forall ident chan, wf_str ident -> wf_str chan ->
  exists fr body, msgunsubscribe ident chan = Some fr /\ decodes_to limitP fr 5 body /\
                  readunsubscribe body = Some (ident, chan).
Proof. exact WireRoundtrip.C05_unsubscribe. Qed.

Theorem C05_error : forall err, utf8_valid err = true -> 5 + zlen err <= limitP 0 ->
  exists fr body, msgerror err = Some fr /\ decodes_to limitP fr 0 body /\ readerror body = Some err.
Proof. exact WireRoundtrip.C05_error. Qed.

(* ---- the same six statements for the SOURCE: ProtoGen.v is the Gallina text that harness/pytrans.py
   translated from /repo/hpfeeds/protocol.py on this run (dynamic Python values: VStr s = the str whose
   UTF-8 encoding is s, VBytes b = bytes; Ok v = returns v).
   src_decodes_to fr op body := feeding fr to a fresh translated Unpacker and calling __next__ until it
   raises yields exactly [(op, body)], leaves the buffer empty and ends with StopIteration, and the
   frame's length header equals its length. ---- *)
Theorem C05_src_info : forall name rand, wf_str name -> zlen rand <= 20 ->
  exists fr body, ProtoGen.msginfo (VStr name) (VBytes rand) = Ok (VBytes fr) /\ src_decodes_to fr 1 body /\
                  ProtoGen.readinfo (VBytes body) = Ok (VTuple [VStr name; VBytes rand]).
Proof. exact ProtoGenProps.src_info. Qed.
Theorem C05_src_auth : forall rand ident secret, wf_str ident ->
  exists fr body, ProtoGen.msgauth (VBytes rand) (VStr ident) (VStr secret) = Ok (VBytes fr) /\
                  src_decodes_to fr 2 body /\
                  ProtoGen.readauth (VBytes body) = Ok (VTuple [VStr ident; VBytes (sha1 (rand ++ secret))]).
Proof. exact ProtoGenProps.src_auth. Qed.
Theorem C05_src_publish : forall ident chan data, wf_str ident -> wf_str chan ->
  7 + zlen ident + zlen chan + zlen data <= limitP 3 ->
  exists fr body, ProtoGen.msgpublish (VStr ident) (VStr chan) (VBytes data) = Ok (VBytes fr) /\
                  src_decodes_to fr 3 body /\
                  ProtoGen.readpublish (VBytes body) = Ok (VTuple [VStr ident; VStr chan; VBytes data]).
Proof. exact ProtoGenProps.src_publish. Qed.
Theorem C05_src_subscribe : forall ident chan, wf_str ident -> wf_str chan ->
  exists fr body, ProtoGen.msgsubscribe (VStr ident) (VStr chan) = Ok (VBytes fr) /\ src_decodes_to fr 4 body /\
                  ProtoGen.readsubscribe (VBytes body) = Ok (VTuple [VStr ident; VStr chan]).
Proof. exact ProtoGenProps.src_subscribe. Qed.
Theorem C05_src_unsubscribe : forall ident chan, wf_str ident -> wf_str chan ->
  exists fr body, ProtoGen.msgunsubscribe (VStr ident) (VStr chan) = Ok (VBytes fr) /\ src_decodes_to fr 5 body /\
                  ProtoGen.readunsubscribe (VBytes body) = Ok (VTuple [VStr ident; VStr chan]).
Proof. exact ProtoGenProps.src_unsubscribe. Qed.
Theorem C05_src_error : forall err, utf8_valid err = true -> 5 + zlen err <= limitP 0 ->
  exists fr body, ProtoGen.msgerror (VStr err) = Ok (VBytes fr) /\ src_decodes_to fr 0 body /\
                  ProtoGen.readerror (VBytes body) = Ok (VStr err).
Proof. exact ProtoGenProps.src_error. Qed.

Print Assumptions C05_info.
Print Assumptions C05_auth.
Print Assumptions C05_publish.
Print Assumptions C05_subscribe.
Print Assumptions C05_unsubscribe.
Print Assumptions C05_error.
Print Assumptions C05_src_info.
Print Assumptions C05_src_auth.
Print Assumptions C05_src_publish.
Print Assumptions C05_src_subscribe.
Print Assumptions C05_src_unsubscribe.
Print Assumptions C05_src_error.
