(* C18 — reloading the JSON user file is all-or-nothing. *)
From Coq Require Import ZArith List Bool String.
Open Scope string_scope.
Open Scope list_scope.
From HP Require Import Bytes Stores StoresFacts.
Import ListNotations.

(* load db parsed : the active database after Authenticator.load(), where parsed = what json.load returned
   (None: missing file, truncated, half-written or non-JSON content — anything that makes open/json.load raise).
   valid_table es : every entry is a mapping with owner, secret and list-typed pubchans and subchans. *)

Theorem C18_entry_rule : forall v, entry_ok v = true <->
  exists f, v = JObj f /\ jhas (B "owner") f = true /\ jhas (B "secret") f = true /\
            (exists l, jassoc (B "pubchans") f = Some (JArr l)) /\ (exists l, jassoc (B "subchans") f = Some (JArr l)).
Proof. exact entry_ok_spec. Qed.

(* for ANY file content: either it is a JSON object whose every entry is valid and the database becomes
   exactly that mapping, or the database is exactly what it was *)
Theorem C18_all_or_nothing : forall db p,
  (exists es, p = Some (JObj es) /\ valid_table es /\ load db p = es) \/
  ((forall es, p = Some (JObj es) -> ~ valid_table es) /\ load db p = db).
Proof. exact load_rule. Qed.

(* for ANY sequence of reloads: the database is the mapping of the last acceptable file, or the initial
   database if there was none — an invalid file never clears, shrinks or partially replaces it *)
Theorem C18_sequence : forall ps db0,
  fold_left load ps db0 = match last_accepted ps with Some es => es | None => db0 end.
Proof. exact load_sequence. Qed.
Theorem C18_accepted_is_valid : forall p es, accepted p = Some es -> p = Some (JObj es) /\ valid_table es.
Proof. exact accepted_valid. Qed.

(* ---- the same for json.Authenticator as TRANSLATED from the Python source on every run (harness/pytrans4.py ->
   StoreGen.v; StoreGenEq.v proves the translated load / get_authkey equal to the model).  No axioms. *)
From HP Require Import PyStore StoreGen StoreGenEq.
Theorem C18_src_load_is_model : forall db parsed, Authenticator_load parsed db = SOk tt (load db parsed).
Proof. exact load_src_eq. Qed.
Theorem C18_src_all_or_nothing : forall db p,
  (exists es, p = Some (JObj es) /\ valid_table es /\ Authenticator_load p db = SOk tt es) \/
  ((forall es, p = Some (JObj es) -> ~ valid_table es) /\ Authenticator_load p db = SOk tt db).
Proof. exact src_load_all_or_nothing. Qed.
Theorem C18_src_sequence : forall ps db0, loads_src ps db0 = match last_accepted ps with Some es => es | None => db0 end.
Proof. exact src_load_sequence. Qed.

Print Assumptions C18_entry_rule.
Print Assumptions C18_all_or_nothing.
Print Assumptions C18_sequence.
Print Assumptions C18_accepted_is_valid.
Print Assumptions C18_src_load_is_model.
Print Assumptions C18_src_all_or_nothing.
Print Assumptions C18_src_sequence.
