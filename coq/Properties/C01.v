(* C01 — fan-out: one exact copy to every current subscriber, nobody else, in order.
   run bname store async h  = the broker model after the callbacks h (any list of events: any number of
   connections, any chunking, any interleaving).  out = what was written to a connection's transport
   (newest first); pubs keeps its OP_PUBLISH frames as (ident, channel, payload).
   alog = the log of accepted actions; spec = BrokerSpec.spec, the abstract machine:
     an accepted PUBLISH (APub p i c d) is appended to sp_out q for exactly the q that hold c
     (last SUBSCRIBE/UNSUBSCRIBE of q for c was a SUBSCRIBE and q has not gone) and are not closing. *)
From Coq Require Import ZArith List Bool.
From HP Require Import Bytes Sha1 Wire Broker BrokerSpec BrokerInv BrokerProps BrokerStores.
Import ListNotations.

Section C01.
Variable bname : bytes. Variable store : ident -> lookup. Variable async_store : bool.
Notation run := (run bname store async_store).

(* what every connection was sent is exactly what the abstract machine says, message for message,
   byte for byte, in order — in every reachable state *)
Theorem C01_refines : forall h q,
  pubs (out (conns (run h) q)) = sp_out (spec (alog (run h))) q.
Proof. exact (refines bname store async_store). Qed.

(* the abstract rule for one accepted PUBLISH, written out *)
Theorem C01_fanout_rule : forall t p i c d q,
  sp_out (spec (APub p i c d :: t)) q =
  if holds t q c && negb (sp_closed (spec t) q) then (i, c, d) :: sp_out (spec t) q else sp_out (spec t) q.
Proof. exact spec_pub_rule. Qed.

(* the ident stamped on a delivered message is the one the publisher authenticated as *)
Theorem C01_publisher_ident : forall h q i c d, In (i, c, d) (pubs (out (conns (run h) q))) ->
  exists l1 p t, alog (run h) = l1 ++ APub p i c d :: t /\
    (exists r, last_auth t p = Some (i, r) /\ In c (r_pub r)) /\
    (exists l2 t2 i2 r2, t = l2 ++ ASub q c :: t2 /\ last_auth t2 q = Some (i2, r2) /\ In c (r_sub r2)) /\
    sp_closed (spec t) q = false.
Proof. exact (delivered_legit bname store async_store). Qed.

(* every connection's messages are a subsequence of the one sequence of accepted publishes, so any
   two subscribers see their common messages in the same order *)
Theorem C01_common_order : forall h q,
  sublist (pubs (out (conns (run h) q))) (accepted (alog (run h))).
Proof. exact (common_order bname store async_store). Qed.
End C01.

(* the same refinement when the credential store changes while the broker runs (segments, each under its own store) *)
Theorem C01_changing_store_refines : forall bname async segs q,
  pubs (out (conns (runs bname async segs) q)) = sp_out (spec (alog (runs bname async segs))) q.
Proof. exact runs_refines. Qed.

(* ---- the same for the code as TRANSLATED from the Python source on every run (harness/pytrans3.py -> BrokerGen.v):
   run_src is the event loop with the translated Server.subscribe/unsubscribe/publish and Connection.on_publish/
   on_subscribe/on_unsubscribe/authenticate/connection_lost/message_received plugged in; BrokerGenRun.run_src_eq proves it
   equal to the model.  These theorems rely on functional_extensionality_dep (Coq standard library) and nothing else. *)
From HP Require Import PyBroker BrokerGen BrokerGenEq BrokerGenRun BrokerGenProps.
Theorem C01_src_run_is_model : forall bname store async_store h, run_src bname store async_store h = run bname store async_store h.
Proof. exact run_src_eq. Qed.
Theorem C01_src_refines : forall bname store async_store h q, pubs (out (conns (run_src bname store async_store h) q)) = sp_out (spec (alog (run_src bname store async_store h))) q.
Proof. exact src_refines. Qed.
Theorem C01_src_publish_is_model : forall p c d s, Server_publish p c d s = match publish p c d s with Ok s' => BOk false s' | Raise s' => BRaise s' | Fuel s' => BFuel s' end.
Proof. exact Server_publish_eq. Qed.

Print Assumptions C01_refines.
Print Assumptions C01_fanout_rule.
Print Assumptions C01_publisher_ident.
Print Assumptions C01_common_order.
Print Assumptions C01_changing_store_refines.
Print Assumptions C01_src_run_is_model.
Print Assumptions C01_src_refines.
Print Assumptions C01_src_publish_is_model.
