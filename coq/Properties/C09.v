(* C09 — a connection that ends at any point is forgotten completely. *)
From Coq Require Import ZArith List Bool.
From HP Require Import Bytes Sha1 Wire Broker BrokerSpec BrokerInv BrokerProps.
Import ListNotations.

Section C09.
Variable bname : bytes. Variable store : ident -> lookup. Variable async_store : bool.
Notation run := (run bname store async_store).

(* the transport reports the loss at ANY point of ANY history (h arbitrary: before/after auth, mid-frame,
   lookup or timer pending, subscribed, under back-pressure): from then on, whatever follows (h'), the
   broker does not count it as a connection, it is subscribed to nothing, and no channel lists it *)
Theorem C09_lost_forgotten : forall h h' q, made (conns (run h) q) = true -> lost (conns (run h) q) = false ->
  let s := run (h ++ Lost q :: h') in
  copen (conns s q) = false /\ active (conns s q) = [] /\ (forall c, ~ In q (subs s c)).
Proof. exact (lost_forgotten bname store async_store). Qed.

(* the same for a connection the broker itself dropped from its registry (forced loss in publish) *)
Theorem C09_stays_forgotten : forall h h' q, made (conns (run h) q) = true -> copen (conns (run h) q) = false ->
  let s := run (h ++ h') in
  copen (conns s q) = false /\ active (conns s q) = [] /\ (forall c, ~ In q (subs s c)).
Proof. exact (stays_forgotten bname store async_store). Qed.

(* the registry never points at a connection that is not registered — so a later publish on a former
   channel of q finds only live subscribers ... *)
Theorem C09_registry_live : forall h c q, In q (subs (run h) c) ->
  copen (conns (run h) q) = true /\ In c (active (conns (run h) q)).
Proof. exact (registry_live bname store async_store). Qed.

(* ... and completes without an exception, delivering per the abstract machine *)
Theorem C09_publish_proceeds : forall h p c d i r,
  last_auth (alog (run h)) p = Some (i, r) -> In c (r_pub r) ->
  exists s', publish p c d (run h) = Ok s' /\ Good (srow store) async_store s'.
Proof. exact (publish_proceeds bname store async_store). Qed.
End C09.

(* ---- the same for the code as TRANSLATED from the Python source on every run (harness/pytrans3.py -> BrokerGen.v):
   run_src is the event loop with the translated Server.subscribe/unsubscribe/publish and Connection.on_publish/
   on_subscribe/on_unsubscribe/authenticate/connection_lost/message_received plugged in; BrokerGenRun.run_src_eq proves it
   equal to the model.  These theorems rely on functional_extensionality_dep (Coq standard library) and nothing else. *)
From HP Require Import PyBroker BrokerGen BrokerGenEq BrokerGenRun BrokerGenProps.
Theorem C09_src_run_is_model : forall bname store async_store h, run_src bname store async_store h = run bname store async_store h.
Proof. exact run_src_eq. Qed.
Theorem C09_src_lost_forgotten : forall bname store async_store h h' q, made (conns (run_src bname store async_store h) q) = true -> lost (conns (run_src bname store async_store h) q) = false ->
  let s := run_src bname store async_store (h ++ Lost q :: h') in
  copen (conns s q) = false /\ active (conns s q) = nil /\ (forall c, ~ In q (subs s c)).
Proof. exact src_lost_forgotten. Qed.
Theorem C09_src_stays_forgotten : forall bname store async_store h h' q, made (conns (run_src bname store async_store h) q) = true -> copen (conns (run_src bname store async_store h) q) = false ->
  let s := run_src bname store async_store (h ++ h') in
  copen (conns s q) = false /\ active (conns s q) = nil /\ (forall c, ~ In q (subs s c)).
Proof. exact src_stays_forgotten. Qed.
Theorem C09_src_connection_lost : forall q s, copen (conns s q) = true -> Connection_connection_lost q s = BOk false (lostp q s).
Proof. exact src_connection_lost. Qed.

Print Assumptions C09_lost_forgotten.
Print Assumptions C09_stays_forgotten.
Print Assumptions C09_registry_live.
Print Assumptions C09_publish_proceeds.
Print Assumptions C09_src_run_is_model.
Print Assumptions C09_src_lost_forgotten.
Print Assumptions C09_src_stays_forgotten.
Print Assumptions C09_src_connection_lost.
