(* C15 — slow consumers are dropped after the grace period, recovered ones are not (model: 1 s ticks). *)
From Coq Require Import ZArith List Bool Arith.
From HP Require Import Bytes Sha1 Wire Broker BrokerSpec BrokerInv BrokerStep BrokerTrace BrokerLocal BrokerTimer BrokerProps BrokerProps2 BrokerDeadline.
Import ListNotations.

Section C15.
Variable bname : bytes. Variable store : ident -> lookup. Variable async_store : bool.
Notation run := (run bname store async_store).
Notation step := (step bname store async_store).

(* tw c = (seconds left on the deadline, if any; whether the transport reported the buffer above high water).
   Nothing but a stall, a drain and the clock (and the creation of the connection) ever changes it. *)
Theorem C15_timer_frame : forall s e,
  match e with PauseW _ | ResumeW _ | Tick | Connect _ _ => True | _ => sametw s (step s e) end.
Proof. exact (timer_frame bname store async_store). Qed.

(* a stall starts a FULL grace period (60), whatever happened before; a drain cancels it; neither closes *)
Theorem C15_stall_starts_full_period : forall q s,
  made (conns s q) = true -> lost (conns s q) = false -> wpaused (conns s q) = false ->
  tw (conns (do_pausew q s) q) = (Some grace, true) /\
  (forall q', q' <> q -> conns (do_pausew q s) q' = conns s q') /\
  closing (conns (do_pausew q s) q) = closing (conns s q) /\ out (conns (do_pausew q s) q) = out (conns s q).
Proof. exact pausew_effect. Qed.
Theorem C15_drain_cancels : forall q s,
  made (conns s q) = true -> lost (conns s q) = false -> wpaused (conns s q) = true ->
  tw (conns (do_resumew q s) q) = (None, false) /\
  (forall q', q' <> q -> conns (do_resumew q s) q' = conns s q') /\
  closing (conns (do_resumew q s) q) = closing (conns s q) /\ out (conns (do_resumew q s) q) = out (conns s q).
Proof. exact resumew_effect. Qed.
Theorem C15_grace : grace = 60%nat.
Proof. exact grace_is_60. Qed.

(* each second: with more than one second left only the count goes down (not closed earlier);
   in the last second the connection is sent OP_ERROR and closed *)
Theorem C15_one_second : forall s q n, timer (conns s q) = Some n ->
  if (n <=? 1)%nat then
    tick1 s q = bad q (modc q (set_timer None) s) /\ closing (conns (tick1 s q) q) = true /\ timer (conns (tick1 s q) q) = None
  else
    tick1 s q = modc q (set_timer (Some (n - 1)%nat)) s /\ closing (conns (tick1 s q) q) = closing (conns s q) /\
    out (conns (tick1 s q) q) = out (conns s q).
Proof. exact tick1_effect. Qed.

(* other subscribers keep receiving throughout: a connection without a deadline is untouched by the clock,
   and by every event of the stalled connection (C10) *)
Theorem C15_others_unaffected : forall h q, timer (conns (run h) q) = None ->
  untouched (conns (run h) q) (conns (step (run h) Tick) q).
Proof. exact (tick_local_run bname store async_store). Qed.
(* ---- over whole histories ---- *)
(* the broker's list of connections holds every made connection exactly once, in every reachable state *)
Theorem C15_ids_ok : forall h, IdsOK (run h).
Proof. exact (run_IdsOK bname store async_store). Qed.

(* for ANY list of events without a new stall / drain / creation of q, the seconds left on q's deadline are what they
   were minus the number of clock ticks, as long as that stays positive: the deadline does not fire earlier *)
Theorem C15_deadline_counts_ticks : forall q es s n,
  Good (srow store) async_store s -> IdsOK s -> In q (ids s) -> timer (conns s q) = Some n ->
  forallb (leaves_deadline q) es = true -> (nticks es < n)%nat ->
  timer (conns (fold_left step es s) q) = Some (n - nticks es)%nat.
Proof. exact (deadline_counts_ticks bname store async_store). Qed.

(* the whole episode from any reachable state: a stall starts a 60 s count; after k < 60 ticks of arbitrary other
   activity 60 - k s are left; the 60th tick sends OP_ERROR and closes the connection *)
Theorem C15_stall_then_exactly_grace : forall h q es,
  let s := run h in
  made (conns s q) = true -> lost (conns s q) = false -> wpaused (conns s q) = false ->
  forallb (leaves_deadline q) es = true ->
  let s1 := fold_left step es (step s (PauseW q)) in
  ((nticks es < grace)%nat -> timer (conns s1 q) = Some (grace - nticks es)%nat) /\
  (nticks es = (grace - 1)%nat -> closing (conns (step s1 Tick) q) = true /\ timer (conns (step s1 Tick) q) = None).
Proof. exact (stall_then_exactly_grace bname store async_store). Qed.
End C15.

(* ---- the same for the code as TRANSLATED from the Python source on every run (harness/pytrans3.py -> BrokerGen.v):
   run_src is the event loop with the translated Server.subscribe/unsubscribe/publish and Connection.on_publish/
   on_subscribe/on_unsubscribe/authenticate/connection_lost/message_received plugged in; BrokerGenRun.run_src_eq proves it
   equal to the model.  These theorems rely on functional_extensionality_dep (Coq standard library) and nothing else. *)
From HP Require Import PyBroker BrokerGen BrokerGenEq BrokerGenRun BrokerGenProps.
Theorem C15_src_run_is_model : forall bname store async_store h, run_src bname store async_store h = run bname store async_store h.
Proof. exact run_src_eq. Qed.
Theorem C15_src_ids_ok : forall bname store async_store h, IdsOK (run_src bname store async_store h).
Proof. exact src_IdsOK. Qed.

Theorem C15_src_delay_from_source : Connection_deadline_seconds = 60%nat /\ Connection_deadline_seconds = grace.
Proof. exact (conj eq_refl deadline_seconds_is_grace). Qed.
Theorem C15_src_expiry_is_refusal : forall q s, Connection_deadline_expired q s = BOk false (bad q s).
Proof. exact Connection_deadline_expired_eq. Qed.
Theorem C15_src_stall_then_exactly_grace : forall bname store async_store h q es,
  let step' := step_src bname store async_store in
  let s := run_src bname store async_store h in
  made (conns s q) = true -> lost (conns s q) = false -> wpaused (conns s q) = false ->
  forallb (leaves_deadline q) es = true ->
  let s1 := fold_left step' es (step' s (PauseW q)) in
  ((nticks es < Connection_deadline_seconds)%nat -> timer (conns s1 q) = Some (Connection_deadline_seconds - nticks es)%nat) /\
  (nticks es = (Connection_deadline_seconds - 1)%nat ->
     closing (conns (step' s1 Tick) q) = true /\ timer (conns (step' s1 Tick) q) = None).
Proof. exact src_stall_then_exactly_grace. Qed.

Print Assumptions C15_timer_frame.
Print Assumptions C15_stall_starts_full_period.
Print Assumptions C15_drain_cancels.
Print Assumptions C15_grace.
Print Assumptions C15_one_second.
Print Assumptions C15_others_unaffected.
Print Assumptions C15_ids_ok.
Print Assumptions C15_deadline_counts_ticks.
Print Assumptions C15_stall_then_exactly_grace.
Print Assumptions C15_src_run_is_model.
Print Assumptions C15_src_ids_ok.
Print Assumptions C15_src_delay_from_source.
Print Assumptions C15_src_expiry_is_refusal.
Print Assumptions C15_src_stall_then_exactly_grace.
