(* C03 — delivered messages carry the sender's authenticated ident and an allowed channel. *)
From Coq Require Import ZArith List Bool.
From HP Require Import Bytes Sha1 Wire Broker BrokerSpec BrokerInv BrokerProps.
Import ListNotations.

Section C03.
Variable bname : bytes. Variable store : ident -> lookup. Variable async_store : bool.
Notation run := (run bname store async_store).

(* anything any connection was ever sent names the ident its publisher p last authenticated as (on that
   connection) and a channel on that identity's publish list *)
Theorem C03_delivered_legit : forall h q i c d, In (i, c, d) (pubs (out (conns (run h) q))) ->
  exists l1 p t, alog (run h) = l1 ++ APub p i c d :: t /\
    (exists r, last_auth t p = Some (i, r) /\ In c (r_pub r)) /\
    (exists l2 t2 i2 r2, t = l2 ++ ASub q c :: t2 /\ last_auth t2 q = Some (i2, r2) /\ In c (r_sub r2)) /\
    sp_closed (spec t) q = false.
Proof. exact (delivered_legit bname store async_store). Qed.

(* a PUBLISH naming another ident or a channel outside the list: OP_ERROR to the sender, sender closing,
   nobody else touched, nothing logged as accepted *)
Theorem C03_reject : forall q i c d s me, ak (conns s q) = Some me ->
  i <> me \/ ~ In c (pubchans (conns s q)) -> on_publish q i c d s = Ok (bad q s).
Proof. exact spoofed_publish_reject. Qed.
Theorem C03_refusal_effect : forall q s,
  closing (conns (bad q s) q) = true /\
  out (conns (bad q s) q) = (if lost (conns s q) || aborted (conns s q) then out (conns s q)
                             else FError :: out (conns s q)) /\
  active (conns (bad q s) q) = active (conns s q) /\ ak (conns (bad q s) q) = ak (conns s q) /\
  (forall q', q' <> q -> conns (bad q s) q' = conns s q') /\ subs (bad q s) = subs s /\
  (alog (bad q s) = alog s \/ alog (bad q s) = AClose q :: alog s).
Proof. exact bad_effect. Qed.
End C03.

(* ---- the same for the code as TRANSLATED from the Python source on every run (harness/pytrans3.py -> BrokerGen.v):
   run_src is the event loop with the translated Server.subscribe/unsubscribe/publish and Connection.on_publish/
   on_subscribe/on_unsubscribe/authenticate/connection_lost/message_received plugged in; BrokerGenRun.run_src_eq proves it
   equal to the model.  These theorems rely on functional_extensionality_dep (Coq standard library) and nothing else. *)
From HP Require Import PyBroker BrokerGen BrokerGenEq BrokerGenRun BrokerGenProps.
Theorem C03_src_run_is_model : forall bname store async_store h, run_src bname store async_store h = run bname store async_store h.
Proof. exact run_src_eq. Qed.
Theorem C03_src_delivered_legit : forall bname store async_store h q i c d, In (i, c, d) (pubs (out (conns (run_src bname store async_store h) q))) ->
  exists l1 p t, alog (run_src bname store async_store h) = l1 ++ APub p i c d :: t /\
    (exists r, last_auth t p = Some (i, r) /\ In c (r_pub r)) /\
    (exists l2 t2 i2 r2, t = l2 ++ ASub q c :: t2 /\ last_auth t2 q = Some (i2, r2) /\ In c (r_sub r2)) /\
    sp_closed (spec t) q = false.
Proof. exact src_delivered_legit. Qed.
Theorem C03_src_reject : forall q i c d s me, ak (conns s q) = Some me -> i <> me \/ ~ In c (pubchans (conns s q)) -> Connection_on_publish q i c d s = BOk false (bad q s).
Proof. exact src_spoofed_publish_reject. Qed.

Print Assumptions C03_delivered_legit.
Print Assumptions C03_reject.
Print Assumptions C03_refusal_effect.
Print Assumptions C03_src_run_is_model.
Print Assumptions C03_src_delivered_legit.
Print Assumptions C03_src_reject.
