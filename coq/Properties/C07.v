(* C07 — arbitrary bytes: the decoder terminates, stays bounded, fails only cleanly. *)
From Coq Require Import ZArith List.
From Coq Require Import Strings.Byte.
From HP Require Import Bytes Wire WireFacts ParamsOK WireStream.
From HP Require ProtoGen ProtoGenEq ProtoGenProps.
From HP Require Import PyPrim.
Import ListNotations.
Open Scope Z_scope.

(* termination: the fuel S(length buffer) used by the model is never exhausted (error code -1) *)
Theorem C07_total : forall (chunks : list bytes) fs r e,
  feed_all limitP chunks = (fs, r, e) -> e <> Some (-1).
Proof. exact WireStream.total. Qed.

(* whatever the bytes and the chunking: the yielded frames re-encoded, followed by what is still
   buffered, are exactly the input (declared length = bytes consumed); every yielded frame has one of
   the six opcodes and a declared length between 5 and that opcode's limit; and the decoder either
   waits for more input or stopped with the library's protocol exception at a bad header *)
Theorem C07_outcomes : forall (chunks : list bytes) fs r e,
  feed_all limitP chunks = (fs, r, e) ->
  concat chunks = concat (map enc fs) ++ r /\
  Forall (frame_ok limitP) fs /\
  (e = None /\ next limitP r = NeedMore \/
   exists c, e = Some c /\ (c = 1 \/ c = 2 \/ c = 3) /\ next limitP r = Bad c).
Proof. exact WireStream.outcomes. Qed.

(* a complete 5-byte header is rejected iff opcode unknown, length above the limit or below 5,
   and the verdict does not depend on anything after the header *)
Theorem C07_reject_at_header : forall b0 b1 b2 b3 o tl,
  let ml := de32 b0 b1 b2 b3 in let op := bz o in
  ((exists c, next limitP (b0::b1::b2::b3::o::tl) = Bad c) <-> (5 < op \/ limitP op < ml \/ ml < 5)) /\
  (forall c, next limitP [b0;b1;b2;b3;o] = Bad c <-> next limitP (b0::b1::b2::b3::o::tl) = Bad c).
Proof. exact WireStream.reject_at_header. Qed.

(* after every clean drain less than one maximal frame is buffered (so during the next feed the
   buffer holds less than one maximal frame plus that chunk) *)
Theorem C07_bounded : forall (chunks : list bytes) fs r,
  feed_all limitP chunks = (fs, r, None) -> zlen r < max_limit.
Proof. exact WireStream.bounded. Qed.

(* the lower bound is necessary: the decoder as it was before the "fix:" commit never finishes on
   five zero bytes, whatever fuel it is given *)
Theorem C07_unrepaired_refuted : forall fuel,
  drain_unrepaired fuel [x00;x00;x00;x00;x00] = (fuel, Some (-1)).
Proof. exact WireStream.unrepaired_diverges. Qed.

(* ---- for the SOURCE (ProtoGen.v = /repo/hpfeeds/protocol.py translated on this run) ---- *)
(* iteration always ends: the fuel S(len(self.buf)) of the iteration is never exhausted *)
Theorem C07_src_total : forall (chunks : list bytes) vs s e,
  ProtoGenEq.src_feed_all chunks = (vs, s, e) -> e <> Some Unsupported.
Proof. exact ProtoGenProps.src_total. Qed.
(* whatever the bytes and the chunking: the values yielded are (op, body) tuples that re-encode, followed by
   self.buf, to exactly the input; each has a defined opcode and a declared length within 5..limit; and the
   next __next__() raises StopIteration (waiting for more) or the protocol exception of a bad header *)
Theorem C07_src_outcomes : forall (chunks : list bytes) vs s e,
  ProtoGenEq.src_feed_all chunks = (vs, s, e) ->
  exists fs r, vs = map ProtoGenEq.frame_val fs /\ s = VBArr r /\
    concat chunks = concat (map enc fs) ++ r /\ Forall (frame_ok limitP) fs /\
    (e = None /\ ProtoGen.Unpacker_next s = (Raise ProtoGenEq.StopIteration, s) \/
     exists c, (c = 1 \/ c = 2 \/ c = 3) /\ e = Some (ProtoGenEq.bad_exn c) /\
               ProtoGen.Unpacker_next s = (Raise (ProtoGenEq.bad_exn c), s)).
Proof. exact ProtoGenProps.src_outcomes. Qed.

Print Assumptions C07_total.
Print Assumptions C07_outcomes.
Print Assumptions C07_reject_at_header.
Print Assumptions C07_bounded.
Print Assumptions C07_unrepaired_refuted.
Print Assumptions C07_src_total.
Print Assumptions C07_src_outcomes.
