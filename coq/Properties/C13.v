(* C13 — clients come back after any connection loss and stop when told to. *)
From Coq Require Import ZArith List Bool.
From HP Require Import Bytes Wire WireRoundtrip ParamsOK AioSession AioFacts AioClose AioShape LegacyClient LegacyFacts LegacyStop.
Import ListNotations.

(* ---- asyncio ClientSession ---- *)
(* once the reconnect task has finished nothing is ever attempted again, whatever happens afterwards *)
Theorem C13_asyncio_finished_forever : forall ident secret s e,
  finished s -> finished (astep ident secret s e) /\ attempts (astep ident secret s e) = attempts s.
Proof. exact finished_forever. Qed.

(* close() while not connected (about to start, connecting, backing off, loss just reported) completes at the next
   turn of the loop and the reconnect task is finished *)
Theorem C13_asyncio_close_not_connected : forall ident secret s,
  cst s = CNone -> tr s = None -> cancel_req s = false -> (ready s = [] \/ ready s = [TR]) -> P1 s ->
  let s' := astep ident secret (astep ident secret s AClose) AIdle in
  cst s' = CDone /\ finished s' /\ closing s' = true.
Proof. exact close_not_connected. Qed.

(* the side condition P1 of the previous theorem holds in every reachable state *)
Theorem C13_asyncio_P1 : forall ident secret es, P1 (arun ident secret es).
Proof. exact run_P1. Qed.

(* close() while connected (before or after OP_INFO) closes the transport; when the loss is reported close() returns,
   the reconnect task is finished and no attempt was made *)
Theorem C13_asyncio_close_connected : forall ident secret s k,
  cst s = CNone -> tr s = Some k -> cancel_req s = false -> ready s = [] -> pc s = PWaitClosed -> wcl_done s = false ->
  pend s = false -> (k < length (conns s))%nat -> clost (getc s k) = false ->
  let s1 := astep ident secret (astep ident secret s AClose) AIdle in
  let s2 := astep ident secret (astep ident secret s1 (ALost k)) AIdle in
  cclosing (getc s1 k) = true /\ cst s2 = CDone /\ finished s2 /\ attempts s2 = attempts s.
Proof. exact close_connected. Qed.

(* after a loss / a refusal / from an established connection that drops: as soon as the next attempt is accepted and
   the broker's OP_INFO arrives the session is on a new connection whose output is OP_AUTH(nonce) followed by
   OP_SUBSCRIBE for every wanted topic *)
Theorem C13_asyncio_recovers_after_loss : forall ident secret, (zlen ident <= 255)%Z -> forall s name nonce,
  pc s = PWaitClosed -> tr s = None -> wcl_done s = true -> ready s = [TR] -> closing s = false -> cancel_req s = false ->
  wf_str name -> (zlen nonce <= 20)%Z ->
  exists fr, msginfo name nonce = Some fr /\
    let k := length (conns s) in
    let s' := astep ident secret (astep ident secret (astep ident secret s AIdle) AOk) (AData k fr) in
    ready_on s' k nonce (wanted s) /\ attempts s' = S (attempts s).
Proof. exact recovers_after_loss. Qed.

Theorem C13_asyncio_recovers_after_refusal : forall ident secret, (zlen ident <= 255)%Z -> forall s name nonce,
  pc s = PBackoff 1 -> ready s = [] -> closing s = false -> cancel_req s = false -> wc_done s = false -> cur s = None ->
  wf_str name -> (zlen nonce <= 20)%Z ->
  exists fr, msginfo name nonce = Some fr /\
    let k := length (conns s) in
    let s' := astep ident secret (astep ident secret (astep ident secret s (AAdv 1)) AOk) (AData k fr) in
    ready_on s' k nonce (wanted s) /\ attempts s' = S (attempts s).
Proof. exact recovers_after_refusal. Qed.

Theorem C13_asyncio_recovers_from_connected : forall ident secret, (zlen ident <= 255)%Z -> forall s k name nonce,
  pc s = PWaitClosed -> tr s = Some k -> wcl_done s = false -> ready s = [] -> closing s = false -> cancel_req s = false ->
  cst s = CNone -> (k < length (conns s))%nat -> clost (getc s k) = false -> wf_str name -> (zlen nonce <= 20)%Z ->
  exists fr, msginfo name nonce = Some fr /\
    let k' := length (conns s) in
    let s' := astep ident secret (astep ident secret (astep ident secret (astep ident secret s (ALost k)) AIdle) AOk) (AData k' fr) in
    ready_on s' k' nonce (wanted s) /\ attempts s' = S (attempts s).
Proof. exact recovers_from_connected. Qed.

(* the hypotheses of the theorems above are met by reachable states *)
Theorem C13_asyncio_phases_reachable : forall ident secret,
  let s_loss := arun ident secret [AIdle; AOk; ALost 0] in
  let s_refused := arun ident secret [AIdle; ARefuse] in
  let s_conn := arun ident secret [AIdle; AOk] in
  (pc s_loss = PWaitClosed /\ tr s_loss = None /\ wcl_done s_loss = true /\ ready s_loss = [TR] /\
   closing s_loss = false /\ cancel_req s_loss = false) /\
  (pc s_refused = PBackoff 1 /\ ready s_refused = [] /\ closing s_refused = false /\ cancel_req s_refused = false /\
   wc_done s_refused = false /\ cur s_refused = None) /\
  (pc s_conn = PWaitClosed /\ tr s_conn = Some 0%nat /\ wcl_done s_conn = false /\ ready s_conn = [] /\
   cst s_conn = CNone /\ clost (getc s_conn 0) = false) /\
  connecting (arun ident secret [AIdle]).
Proof. exact phases_reachable. Qed.

(* ---- asyncio, for EVERY reachable state ---- *)
(* the control state of the session, whenever close() has not been called, is one of five shapes (not started / connecting
   / backing off / connected / loss just reported) and at most one connection is not yet lost, the session's transport *)
Theorem C13_asyncio_control_shapes : forall ident secret es, Sh (arun ident secret es).
Proof. exact run_Sh. Qed.

(* close() completes from every reachable state in which it has not been called: not connected - at the next turn of the
   loop; connected (before or after OP_INFO) - the transport is closed and, once its loss is reported, close() returns;
   the reconnect task is finished and no further attempt is made (with C13_asyncio_finished_forever: never again) *)
Theorem C13_asyncio_close_always_completes : forall ident secret es,
  let s := arun ident secret es in
  cst s = CNone ->
  match tr s with
  | None =>
      let s' := astep ident secret (astep ident secret s AClose) AIdle in
      cst s' = CDone /\ finished s' /\ closing s' = true
  | Some k =>
      let s1 := astep ident secret (astep ident secret s AClose) AIdle in
      let s2 := astep ident secret (astep ident secret s1 (ALost k)) AIdle in
      cclosing (getc s1 k) = true /\ cst s2 = CDone /\ finished s2 /\ attempts s2 = attempts s
  end.
Proof. exact close_always_completes. Qed.

(* from every reachable state in which close() has not been called: once the current connection (if any) is reported
   lost, the loop runs / the back-off second passes, the next attempt is accepted (recover_events, at most 3 events) and the
   broker's OP_INFO arrives, the session is on a fresh connection whose output is OP_AUTH(nonce) + OP_SUBSCRIBE for
   every wanted topic *)
Theorem C13_asyncio_recovers_always : forall ident secret, (zlen ident <= 255)%Z -> forall es name nonce,
  let s := arun ident secret es in
  cst s = CNone -> wf_str name -> (zlen nonce <= 20)%Z ->
  exists fr, msginfo name nonce = Some fr /\
    let k := length (conns s) in
    let s' := astep ident secret (fold_left (astep ident secret) (recover_events s) s) (AData k fr) in
    ready_on s' k nonce (wanted s).
Proof. exact recovers_always. Qed.

(* ---- blocking Client ---- *)
(* after stop() run() ends as soon as the read it is blocked in completes, whatever it returns; no attempt follows *)
Theorem C13_legacy_stop : forall s,
  lpcs s = PRecv -> lstopped s = true -> lrecv s <> [] ->
  let s2 := lstep (lstep s) in
  lpcs s2 = PStop /\
  exists evs, ltrace s2 = evs ++ ltrace s /\ forallb no_attempt evs = true /\ (In LReturn evs \/ In LCrash evs).
Proof. exact stop_ends_run. Qed.

(* the same when stop() is called from the message callback (how the model's own runs reach it): the recv() that delivered
   that message is the last one - the rest of its frames are still handed over, then run() returns (or the reader's
   exception leaves it); no connection attempt follows.  (C13_legacy_stop above: stop() from another thread) *)
Theorem C13_legacy_stop_in_callback : forall s d rest,
  lpcs s = PRecv -> lconnected s = true -> lrecv s = RData d :: rest -> lstopped (lstep s) = true ->
  let s2 := lstep (lstep s) in
  lpcs s2 = PStop /\
  exists evs, ltrace s2 = evs ++ ltrace (lstep s) /\ forallb no_attempt evs = true /\
              (In LReturn evs \/ In LCrash (ltrace (lstep s))).
Proof. exact stop_in_callback_ends_run. Qed.

Theorem C13_legacy_stopped_is_final : forall s, lpcs s = PStop -> forall n, lrun n s = s.
Proof. exact stopped_is_final. Qed.

(* every kind of loss leads back to tryconnect() ... *)
Theorem C13_legacy_loss_in_receive_loop : forall s r rest,
  lpcs s = PRecv -> lconnected s = true -> lstopped s = false -> lrecv s = r :: rest -> (r = REof \/ r = RErr) ->
  let s2 := lstep (lstep s) in lpcs s2 = PTry /\ lstopped s2 = false /\ lconn s2 = lconn s /\ lrecv s2 = rest /\
                               lsend s2 = lsend s /\ lsubs s2 = lsubs s /\ lk s2 = lk s.
Proof. exact loss_in_receive_loop. Qed.

Theorem C13_legacy_loss_during_handshake : forall s r rest,
  lpcs s = PAuth -> lrecv s = r :: rest ->
  (r = REof \/ r = RErr \/ r = RTimeout \/ exists d, r = RData d /\ next limitP (lbuf s ++ d) = NeedMore) ->
  let s1 := lstep s in lpcs s1 = PTry /\ lstopped s1 = lstopped s /\ lconn s1 = lconn s /\ lrecv s1 = rest /\
                       lsend s1 = lsend s /\ lsubs s1 = lsubs s /\ lk s1 = lk s.
Proof. exact loss_during_handshake. Qed.

Theorem C13_legacy_refused_attempt : forall s rest,
  lpcs s = PTry -> lconn s = false :: rest ->
  let s1 := lstep s in lpcs s1 = PTry /\ lstopped s1 = lstopped s /\ lconn s1 = rest /\ lrecv s1 = lrecv s /\
                       lsend s1 = lsend s /\ lsubs s1 = lsubs s /\ lk s1 = lk s /\ ltrace s1 = LSleep :: LAttempt :: ltrace s.
Proof. exact refused_attempt. Qed.

(* ... and from there, as soon as the broker accepts and sends OP_INFO, the client is back in its receive loop on a
   new connection with OP_AUTH for that nonce and OP_SUBSCRIBE for every wanted channel sent *)
Theorem C13_legacy_reconnects : forall s cs d rs body rest nm rand,
  lpcs s = PTry -> lstopped s = false -> lconn s = true :: cs -> lrecv s = RData d :: rs -> lsend s = [] ->
  next limitP d = Ready 1 body rest -> readinfo body = Some (nm, rand) ->
  let s' := lrun (4 + length (lsubs s)) s in
  let k := S (lk s) in
  lpcs s' = PRecv /\ lconnected s' = true /\ lk s' = k /\ lstopped s' = false /\ lrecv s' = rs /\ lconn s' = cs /\
  ltrace s' = rev (map (LSentSub k) (lsubs s)) ++ [LSentAuth k rand; LInfo k rand; LConnected k; LAttempt] ++ ltrace s.
Proof. exact reconnects_when_reachable. Qed.

(* ---- _Protocol.connection_lost as TRANSLATED from hpfeeds/asyncio/client.py on every run (harness/pytrans6.py -> AioGen.v):
   the loss of a connection is the model's do_lost (transport bookkeeping, then the translated callback).  No axioms. *)
From HP Require Import AioGen AioGenEq.
Theorem C13_src_asyncio_connection_lost_is_model : forall k s,
  do_lost k s =
  let c := getc s k in
  if (k <? length (conns s))%nat && negb (clost c) then
    match Protocol_connection_lost k (modk k (fun c => mkac (cbuf c) (cout c) true true (caborted c) (cnonce c)) s) with
    | (s', true) => bump s'
    | (s', false) => s'
    end
  else s.
Proof. exact connection_lost_src_eq. Qed.

(* the Twisted ClientSessionService glue, translated from hpfeeds/twisted/service.py on every run (pytrans6.py; TwGenEq.v) *)
From HP Require Import TwSession TwGenEq.
Theorem C13_src_twisted_connection_lost_is_model : forall k s,
  tw_lost k s =
  let c := getc s k in
  if (k <? length (conns s))%nat && negb (clost c) then
    fst (TwProtocol_connection_lost k (modk k (fun c => mkac (cbuf c) (cout c) true true (caborted c) (cnonce c)) s))
  else s.
Proof. exact tw_connection_lost_src_eq. Qed.

Theorem C13_src_asyncio_close_start_is_model : forall s, cst s = CQueued -> run_close s = ClientSession_close_start s.
Proof. exact close_start_src_eq. Qed.

Print Assumptions C13_asyncio_finished_forever.
Print Assumptions C13_asyncio_close_not_connected.
Print Assumptions C13_asyncio_P1.
Print Assumptions C13_asyncio_close_connected.
Print Assumptions C13_asyncio_recovers_after_loss.
Print Assumptions C13_asyncio_recovers_after_refusal.
Print Assumptions C13_asyncio_recovers_from_connected.
Print Assumptions C13_asyncio_phases_reachable.
Print Assumptions C13_asyncio_control_shapes.
Print Assumptions C13_asyncio_close_always_completes.
Print Assumptions C13_asyncio_recovers_always.
Print Assumptions C13_legacy_stop.
Print Assumptions C13_legacy_stop_in_callback.
Print Assumptions C13_legacy_stopped_is_final.
Print Assumptions C13_legacy_loss_in_receive_loop.
Print Assumptions C13_legacy_loss_during_handshake.
Print Assumptions C13_legacy_refused_attempt.
Print Assumptions C13_legacy_reconnects.
Print Assumptions C13_src_asyncio_connection_lost_is_model.
Print Assumptions C13_src_twisted_connection_lost_is_model.
Print Assumptions C13_src_asyncio_close_start_is_model.
