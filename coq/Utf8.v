(* Utf8.v — strict UTF-8 validity as CPython's bytes.decode('utf-8') accepts it (RFC 3629):
   no overlong forms, no surrogates (ED A0..BF), nothing above U+10FFFF.
   A Python str is identified with its UTF-8 encoding (trusted-base assumption, DESIGN §8). *)
From Coq Require Import ZArith List Bool.
From Coq Require Import Strings.Byte.
From HP Require Import Bytes.
Import ListNotations.
Open Scope Z_scope.

Definition inr (lo hi : Z) (b : byte) : bool := (lo <=? bz b) && (bz b <=? hi).
Definition cont (b : byte) : bool := inr 128 191 b.

Fixpoint utf8_valid (l : bytes) : bool :=
  match l with
  | [] => true
  | a :: t =>
    if bz a <=? 127 then utf8_valid t
    else match t with
    | [] => false
    | b :: t2 =>
      if inr 194 223 a then cont b && utf8_valid t2
      else match t2 with
      | [] => false
      | c :: t3 =>
        if inr 224 239 a then
          (if bz a =? 224 then inr 160 191 b
           else if bz a =? 237 then inr 128 159 b
           else cont b) && cont c && utf8_valid t3
        else match t3 with
        | [] => false
        | d :: t4 =>
          if inr 240 244 a then
            (if bz a =? 240 then inr 144 191 b
             else if bz a =? 244 then inr 128 143 b
             else cont b) && cont c && cont d && utf8_valid t4
          else false
        end
      end
    end
  end.
