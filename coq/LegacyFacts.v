(* LegacyFacts.v — what every run of the blocking Client model (LegacyClient.v) satisfies.
   C11: the trace of every reachable state is accepted by the handshake automaton below;
   C12: the callbacks made on a connection are those of the frames decoded from that connection's bytes;
   C13: run() ends after stop() once the current read completes; any loss leads back to an authenticated,
        resubscribed connection as soon as the environment cooperates. *)
From Coq Require Import ZArith List Bool Arith Lia.
From Coq Require Import Strings.Byte.
From HP Require Import Bytes Utf8 Sha1 Wire WireFacts Params ParamsOK WireStream LegacyClient.
Import ListNotations.

Arguments next : simpl never.
Arguments readinfo : simpl never.
Arguments readpublish : simpl never.
Arguments readerror : simpl never.
Arguments Z.eqb : simpl never.

(* ---- C11: the handshake automaton ------------------------------------------------------------ *)
Inductive ast :=
| SIdle                                  (* no connection in use *)
| SAwait (k : nat)                       (* connection k established, nothing received, nothing sent *)
| SGot (k : nat) (r : bytes)             (* its OP_INFO with nonce r has been decoded, nothing sent *)
| SAuthed (k : nat) (todo : list bytes)  (* AUTH for r sent; SUBSCRIBEs still to send, in order *)
| SDead.                                 (* a send failed: nothing more on this connection *)

Definition trans (subs : list bytes) (a : ast) (e : lev) : option ast :=
  match e with
  | LAttempt => Some SIdle
  | LConnected k => match a with SIdle => Some (SAwait k) | _ => None end
  | LInfo k r => match a with SAwait k' => if Nat.eqb k k' then Some (SGot k r) else None | _ => None end
  | LSentAuth k r =>
      match a with SGot k' r' => if Nat.eqb k k' && bytes_eqb r r' then Some (SAuthed k subs) else None | _ => None end
  | LSentSub k c =>
      match a with
      | SAuthed k' (c' :: t) => if Nat.eqb k k' && bytes_eqb c c' then Some (SAuthed k t) else None
      | _ => None
      end
  | LSendFailed k =>
      match a with
      | SGot k' _ | SAuthed k' _ => if Nat.eqb k k' then Some SDead else None
      | _ => None
      end
  | LMsg _ _ _ | LErrMsg _ => match a with SAuthed _ [] => Some a | _ => None end
  | LSleep | LDisconnected _ | LReturn | LCrash | LScriptEnd => Some a
  end.

(* traces are kept newest first *)
Fixpoint accept (subs : list bytes) (tr : list lev) : option ast :=
  match tr with
  | [] => Some SIdle
  | e :: older => match accept subs older with Some a => trans subs a e | None => None end
  end.

Definition rel (a : ast) (s : lstate) : Prop :=
  match lpcs s with
  | PTry | PStop => True
  | PAuth => a = SAwait (lk s)
  | PAfterInner => lstopped s = true \/ lconnected s = false \/ a = SAuthed (lk s) (lsubs s)
  | PSubscribe todo => a = SAuthed (lk s) todo
  | PRecv => lconnected s = false \/ a = SAuthed (lk s) []
  end.
Definition LI (s : lstate) : Prop := exists a, accept (lsubs s) (ltrace s) = Some a /\ rel a s.

Lemma run_frames_keeps fuel : forall s k,
  accept (lsubs s) (ltrace s) = Some (SAuthed k []) ->
  let s' := fst (run_frames fuel s) in
  accept (lsubs s') (ltrace s') = Some (SAuthed k []) /\ lsubs s' = lsubs s /\ lk s' = lk s /\
  lconnected s' = lconnected s /\ lpcs s' = lpcs s /\ lconn s' = lconn s /\ lrecv s' = lrecv s /\ lsend s' = lsend s /\
  (lstopped s = true -> lstopped s' = true).
Proof.
  induction fuel as [|f IH]; intros s k Ha; cbn [run_frames].
  - cbn. repeat split; auto.
  - destruct (next limitP (lbuf s)) as [|c|op body rest] eqn:En.
    + cbn. repeat split; auto.
    + cbn. repeat split; auto.
    + destruct (Z.eqb op 3) eqn:E3.
      * destruct (readpublish body) as [[[i c] d]|] eqn:Er.
        -- specialize (IH (deliver_msg i c d (setbufl rest s)) k).
           cbn in IH. rewrite Ha in IH. specialize (IH eq_refl).
           destruct IH as (H1 & H2 & H3 & H4 & H5 & H6 & H7 & H8 & H9).
           repeat split; auto. intros Hs. apply H9. rewrite Hs. reflexivity.
        -- cbn. repeat split; auto.
      * destruct (Z.eqb op 0) eqn:E0.
        -- destruct (readerror body) as [e|] eqn:Er.
           ++ specialize (IH (ev (LErrMsg e) (setbufl rest s)) k).
              cbn in IH. rewrite Ha in IH. specialize (IH eq_refl).
              destruct IH as (H1 & H2 & H3 & H4 & H5 & H6 & H7 & H8 & H9).
              repeat split; auto.
           ++ cbn. repeat split; auto.
        -- specialize (IH (setbufl rest s) k Ha).
           destruct IH as (H1 & H2 & H3 & H4 & H5 & H6 & H7 & H8 & H9).
           repeat split; auto.
Qed.

Ltac fin Ha :=
  solve [unfold LI, rel; cbn; rewrite ?Ha; cbn; rewrite ?Nat.eqb_refl, ?bytes_eqb_refl; cbn; eauto].

Theorem step_LI s : LI s -> LI (lstep s).
Proof.
  intros [a [Ha Hr]]. unfold rel in Hr. unfold lstep.
  destruct (lpcs s) eqn:Ep.
  - (* PTry *)
    destruct (lconn s) as [|ok rest]; [fin Ha|].
    destruct ok; fin Ha.
  - (* PAuth *)
    subst a.
    destruct (lrecv s) as [|r rest]; [fin Ha|].
    destruct r as [d| | |]; try solve [fin Ha].
    cbn [feedl lbuf].
    match goal with |- context [next limitP ?b] => destruct (next limitP b) as [|c|op body rest'] eqn:En end;
      try solve [fin Ha].
    destruct (Z.eqb op 1); [|fin Ha].
    destruct (readinfo body) as [[nm rand]|]; [|fin Ha].
    unfold pop_send. cbn.
    destruct (lsend s) as [|b t] eqn:Els; [fin Ha|].
    destruct b; fin Ha.
  - (* PSubscribe *)
    subst a.
    destruct todo as [|c t]; [fin Ha|].
    unfold pop_send.
    destruct (lsend s) as [|b t'] eqn:Els; [fin Ha|].
    destruct b; fin Ha.
  - (* PRecv *)
    destruct (lconnected s) eqn:Ec; cbn [negb]; [|fin Ha].
    destruct Hr as [Hr|Hr]; [discriminate|]. subst a.
    destruct (lrecv s) as [|r rest]; [fin Ha|].
    destruct r as [d| | |]; try solve [fin Ha].
    + match goal with |- context [run_frames ?f ?x] =>
        pose proof (run_frames_keeps f x (lk s)) as K; destruct (run_frames f x) as [s3 how] eqn:Erf end.
      cbn in K. specialize (K Ha). destruct K as (K1 & K2 & K3 & K4 & K5 & K6 & K7 & K8 & K9).
      destruct how as [|[|how]].
      * destruct (lstopped s3) eqn:Es3.
        -- exists (SAuthed (lk s) []). unfold rel. cbn. split; [exact K1|]. left; exact Es3.
        -- exists (SAuthed (lk s) []). unfold rel. rewrite K5. split; [exact K1|]. right. rewrite K3. reflexivity.
      * exists (SAuthed (lk s) []). unfold rel. cbn. rewrite K1. split; [reflexivity|]. right. left. reflexivity.
      * exists (SAuthed (lk s) []). unfold rel. cbn. rewrite K1. split; [reflexivity|]. exact I.
    + destruct (lstopped s) eqn:Es; fin Ha.
  - (* PAfterInner *)
    destruct (lstopped s) eqn:Es; [fin Ha|].
    destruct (lconnected s) eqn:Ec; [|fin Ha].
    destruct Hr as [Hr|[Hr|Hr]]; try discriminate. subst a. fin Ha.
  - (* PStop *)
    exists a. unfold rel. rewrite Ep. auto.
Qed.

Lemma run_LI fuel : forall s, LI s -> LI (lrun fuel s).
Proof.
  induction fuel as [|f IH]; intros s H; cbn [lrun]; [exact H|].
  destruct (lpcs s); try exact H; apply IH, step_LI, H.
Qed.

Lemma init_LI conn recv send subs sa : LI (linit conn recv send subs sa).
Proof. exists SIdle. split; reflexivity. Qed.

Lemma run_frames_subs fuel : forall s, lsubs (fst (run_frames fuel s)) = lsubs s.
Proof.
  induction fuel as [|f IH]; intros s; cbn [run_frames]; [reflexivity|].
  destruct (next limitP (lbuf s)) as [|c|op body rest]; try reflexivity.
  destruct (Z.eqb op 3).
  - destruct (readpublish body) as [[[i c] d]|]; [rewrite IH|]; reflexivity.
  - destruct (Z.eqb op 0).
    + destruct (readerror body); [rewrite IH|]; reflexivity.
    + rewrite IH. reflexivity.
Qed.

Lemma step_subs s : lsubs (lstep s) = lsubs s.
Proof.
  unfold lstep. destruct (lpcs s).
  - destruct (lconn s) as [|[|] t]; reflexivity.
  - destruct (lrecv s) as [|[d| | |] t]; try reflexivity.
    cbn [feedl lbuf].
    match goal with |- context [next limitP ?b] => destruct (next limitP b) as [|c|op body rest'] end; try reflexivity.
    destruct (Z.eqb op 1); [|reflexivity].
    destruct (readinfo body) as [[nm rand]|]; [|reflexivity].
    unfold pop_send. cbn. destruct (lsend s) as [|[|] t']; reflexivity.
  - destruct todo as [|c t]; [reflexivity|]. unfold pop_send. destruct (lsend s) as [|[|] t']; reflexivity.
  - destruct (lconnected s); [|reflexivity]. cbn [negb].
    destruct (lrecv s) as [|[d| | |] t]; try reflexivity.
    + match goal with |- context [run_frames ?f ?x] =>
        pose proof (run_frames_subs f x) as K; destruct (run_frames f x) as [s3 how] end.
      cbn in K. destruct how as [|[|how]]; [destruct (lstopped s3)| |]; cbn; exact K.
    + destruct (lstopped s); reflexivity.
  - destruct (lstopped s); [reflexivity|]. destruct (lconnected s); reflexivity.
  - reflexivity.
Qed.

Lemma run_subs fuel : forall s, lsubs (lrun fuel s) = lsubs s.
Proof.
  induction fuel as [|f IH]; intros s; cbn [lrun]; [reflexivity|].
  destruct (lpcs s); try reflexivity; rewrite IH; apply step_subs.
Qed.

(* every trace the client can ever produce is accepted by the handshake automaton *)
Theorem legacy_trace_accepted conn recv send subs sa fuel :
  accept subs (ltrace (lrun fuel (linit conn recv send subs sa))) <> None.
Proof.
  destruct (run_LI fuel _ (init_LI conn recv send subs sa)) as [a [Ha _]].
  rewrite run_subs in Ha. cbn in Ha. rewrite Ha. discriminate.
Qed.

(* ---- the same, read off the trace in time order ---------------------------------------------- *)
Fixpoint acceptL (subs : list bytes) (a : ast) (tr : list lev) : option ast :=
  match tr with
  | [] => Some a
  | e :: later => match trans subs a e with Some b => acceptL subs b later | None => None end
  end.
Lemma acceptL_app subs x : forall a y,
  acceptL subs a (x ++ y) = match acceptL subs a x with Some b => acceptL subs b y | None => None end.
Proof.
  induction x as [|e x IH]; intros a y; cbn [app acceptL]; [reflexivity|].
  destruct (trans subs a e); [apply IH|reflexivity].
Qed.
Lemma accept_rev subs tr : accept subs tr = acceptL subs SIdle (rev tr).
Proof.
  induction tr as [|e tr IH]; [reflexivity|].
  cbn [accept rev]. rewrite acceptL_app, <- IH. destruct (accept subs tr) as [a|]; [|reflexivity].
  cbn [acceptL]. destruct (trans subs a e); reflexivity.
Qed.

Definition is_send (e : lev) : bool :=
  match e with LSentAuth _ _ | LSentSub _ _ | LSendFailed _ => true | _ => false end.
Definition is_attempt (e : lev) : bool := match e with LAttempt => true | _ => false end.
Definition is_callback (e : lev) : bool := match e with LMsg _ _ _ | LErrMsg _ => true | _ => false end.
Definition quiet (e : lev) : bool := negb (is_send e) && negb (is_attempt e).

Lemma quiet_from_await subs k mid : forall a b,
  acceptL subs a mid = Some b -> forallb quiet mid = true ->
  (a = SAwait k -> b = SAwait k \/ exists r, b = SGot k r /\ In (LInfo k r) mid) /\
  (forall r, a = SGot k r -> b = SGot k r).
Proof.
  induction mid as [|e mid IH]; intros a b Hacc Hq.
  - cbn in Hacc. inversion Hacc; subst. split; [intros ->; left; reflexivity|intros r ->; reflexivity].
  - cbn [acceptL] in Hacc. cbn [forallb] in Hq. apply andb_true_iff in Hq. destruct Hq as [Hqe Hq].
    destruct (trans subs a e) as [a1|] eqn:Et; [|discriminate].
    specialize (IH a1 b Hacc Hq). destruct IH as [IH1 IH2].
    split.
    + intros ->. destruct e; cbn in Et, Hqe; try discriminate; try (inversion Et; subst a1).
      * destruct (Nat.eqb k0 k) eqn:Ek; [|discriminate]. apply Nat.eqb_eq in Ek. subst k0.
        inversion Et; subst a1. right. exists rand. split; [apply (IH2 rand eq_refl)|left; reflexivity].
      * destruct (IH1 eq_refl) as [H|[r [H1 H2]]]; [left; exact H|right; exists r; split; [exact H1|right; exact H2]].
      * destruct (IH1 eq_refl) as [H|[r [H1 H2]]]; [left; exact H|right; exists r; split; [exact H1|right; exact H2]].
      * destruct (IH1 eq_refl) as [H|[r [H1 H2]]]; [left; exact H|right; exists r; split; [exact H1|right; exact H2]].
      * destruct (IH1 eq_refl) as [H|[r [H1 H2]]]; [left; exact H|right; exists r; split; [exact H1|right; exact H2]].
      * destruct (IH1 eq_refl) as [H|[r [H1 H2]]]; [left; exact H|right; exists r; split; [exact H1|right; exact H2]].
    + intros r ->. destruct e; cbn in Et, Hqe; try discriminate; inversion Et; subst a1; apply (IH2 r eq_refl).
Qed.

(* C11, first half: on every connection the first frame handed to the socket is the OP_AUTH answering the
   OP_INFO decoded on that very connection (or the attempt to send it failed); nothing precedes that OP_INFO *)
Theorem first_frame_is_auth subs tr pre k mid e post :
  accept subs tr <> None ->
  rev tr = pre ++ LConnected k :: mid ++ e :: post ->
  forallb quiet mid = true -> is_send e = true ->
  exists r, In (LInfo k r) mid /\ (e = LSentAuth k r \/ e = LSendFailed k).
Proof.
  intros Hacc Hsplit Hq He. rewrite accept_rev, Hsplit in Hacc.
  rewrite acceptL_app in Hacc. destruct (acceptL subs SIdle pre) as [a0|]; [|congruence].
  cbn [acceptL] in Hacc. destruct (trans subs a0 (LConnected k)) as [a1|] eqn:E1; [|congruence].
  assert (a1 = SAwait k) by (destruct a0; cbn in E1; congruence). subst a1.
  rewrite acceptL_app in Hacc. destruct (acceptL subs (SAwait k) mid) as [b|] eqn:Em; [|congruence].
  destruct (quiet_from_await subs k mid _ _ Em Hq) as [H1 _].
  cbn [acceptL] in Hacc. destruct (trans subs b e) as [c|] eqn:Ee; [|congruence].
  destruct (H1 eq_refl) as [->|[r [-> Hin]]].
  - destruct e; cbn in He, Ee; discriminate.
  - exists r. split; [exact Hin|].
    destruct e; cbn in He, Ee; try discriminate.
    + destruct (Nat.eqb k0 k) eqn:Ek; cbn in Ee; [|discriminate].
      destruct (bytes_eqb rand r) eqn:Er; [|discriminate].
      apply Nat.eqb_eq in Ek. apply bytes_eqb_eq in Er. subst. left; reflexivity.
    + destruct (Nat.eqb k0 k) eqn:Ek; [|discriminate]. apply Nat.eqb_eq in Ek. subst. right; reflexivity.
Qed.

Definition no_attempt (e : lev) : bool := negb (is_attempt e).

Lemma subs_in_order subs k mid : forall todo b,
  acceptL subs (SAuthed k todo) mid = Some b -> forallb no_attempt mid = true ->
  b = SDead \/ exists done rest, todo = done ++ rest /\ b = SAuthed k rest /\
                                 filter is_send mid = map (LSentSub k) done.
Proof.
  induction mid as [|e mid IH]; intros todo b Hacc Hq.
  - cbn in Hacc. inversion Hacc; subst. right. exists [], todo. repeat split; reflexivity.
  - cbn [acceptL] in Hacc. cbn [forallb] in Hq. apply andb_true_iff in Hq. destruct Hq as [Hqe Hq].
    assert (Dead : forall m, acceptL subs SDead m = Some b -> forallb no_attempt m = true -> b = SDead).
    { clear. induction m as [|x m IHm]; cbn [acceptL forallb]; intros H Hq; [congruence|].
      apply andb_true_iff in Hq. destruct Hq as [Hx Hq].
      destruct x; cbn in H, Hx; try discriminate; apply IHm; assumption. }
    destruct e; cbn in Hacc, Hqe; try discriminate.
    + (* LSentSub *)
      destruct todo as [|c' t]; [discriminate|].
      destruct (Nat.eqb k0 k) eqn:Ek; cbn in Hacc; [|discriminate].
      destruct (bytes_eqb c c') eqn:Ec; [|discriminate].
      apply Nat.eqb_eq in Ek. apply bytes_eqb_eq in Ec. subst k0 c'.
      destruct (IH t b Hacc Hq) as [H|(done & rest & H1 & H2 & H3)]; [left; exact H|].
      right. exists (c :: done), rest. cbn [filter is_send map app]. rewrite H1, H3. repeat split; auto.
    + (* LSendFailed *)
      destruct (Nat.eqb k0 k); [|discriminate]. left. apply (Dead mid Hacc Hq).
    + (* LMsg *) destruct todo; [|discriminate]. apply (IH [] b Hacc Hq).
    + (* LErrMsg *) destruct todo; [|discriminate]. apply (IH [] b Hacc Hq).
    + apply (IH todo b Hacc Hq).
    + apply (IH todo b Hacc Hq).
    + apply (IH todo b Hacc Hq).
    + apply (IH todo b Hacc Hq).
    + apply (IH todo b Hacc Hq).
Qed.

(* C11, second half: between the OP_AUTH of a connection and the first message handed to the application on it
   the client has sent OP_SUBSCRIBE for exactly the wanted channels, each once, and nothing else *)
Theorem resubscribes_before_delivering subs tr pre k r mid m post :
  accept subs tr <> None ->
  rev tr = pre ++ LSentAuth k r :: mid ++ m :: post ->
  forallb no_attempt mid = true -> is_callback m = true ->
  filter is_send mid = map (LSentSub k) subs.
Proof.
  intros Hacc Hsplit Hq Hm. rewrite accept_rev, Hsplit in Hacc.
  rewrite acceptL_app in Hacc. destruct (acceptL subs SIdle pre) as [a0|]; [|congruence].
  cbn [acceptL] in Hacc. destruct (trans subs a0 (LSentAuth k r)) as [a1|] eqn:E1; [|congruence].
  assert (a1 = SAuthed k subs).
  { destruct a0; cbn in E1; try discriminate. destruct (Nat.eqb k k0 && bytes_eqb r r0); congruence. }
  subst a1.
  rewrite acceptL_app in Hacc. destruct (acceptL subs (SAuthed k subs) mid) as [b|] eqn:Em; [|congruence].
  cbn [acceptL] in Hacc. destruct (trans subs b m) as [c|] eqn:Ee; [|congruence].
  destruct (subs_in_order subs k mid subs b Em Hq) as [->|(done & rest & H1 & -> & H3)].
  - destruct m; cbn in Hm, Ee; discriminate.
  - assert (rest = []) by (destruct m; cbn in Hm, Ee; try discriminate; destruct rest; congruence).
    subst rest. rewrite app_nil_r in H1. subst done. exact H3.
Qed.

(* ---- C12: one recv() hands over every complete frame, in order, once -------------------------------- *)
(* what the application is handed for a list of decoded frames; the flag says an undecodable body was met
   (the reader's exception leaves run()) and nothing after it is handed over *)
Fixpoint cbs (fs : list (Z * bytes)) : list lev * bool :=
  match fs with
  | [] => ([], false)
  | (op, body) :: t =>
      if Z.eqb op 3 then
        match readpublish body with
        | Some (i, c, d) => let '(l, x) := cbs t in (LMsg i c d :: l, x)
        | None => ([], true)
        end
      else if Z.eqb op 0 then
        match readerror body with
        | Some e => let '(l, x) := cbs t in (LErrMsg e :: l, x)
        | None => ([], true)
        end
      else cbs t
  end.

Lemma cbs_callbacks fs : forallb is_callback (fst (cbs fs)) = true.
Proof.
  induction fs as [|[op body] t IH]; [reflexivity|]. cbn [cbs].
  destruct (Z.eqb op 3).
  - destruct (readpublish body) as [[[i c] d]|]; [|reflexivity]. destruct (cbs t) as [l x]. cbn in *. exact IH.
  - destruct (Z.eqb op 0); [|exact IH].
    destruct (readerror body); [|reflexivity]. destruct (cbs t) as [l x]. cbn in *. exact IH.
Qed.

Definition how_of (x : bool) (e : option Z) : nat :=
  if x then 2%nat else match e with None => 0%nat | Some _ => 1%nat end.

Lemma run_frames_spec fuel : forall s, (length (lbuf s) < fuel)%nat ->
  forall fs r e, drain limitP fuel (lbuf s) = (fs, r, e) ->
  let s' := fst (run_frames fuel s) in
  ltrace s' = rev (fst (cbs fs)) ++ ltrace s /\ lrx s' = lrx s /\
  snd (run_frames fuel s) = how_of (snd (cbs fs)) e /\
  (snd (cbs fs) = false -> lbuf s' = r).
Proof.
  induction fuel as [|f IH]; intros s Hlen fs r e Hd; [lia|].
  cbn [drain] in Hd. cbn [run_frames].
  destruct (next limitP (lbuf s)) as [|c|op body rest] eqn:En.
  - inversion Hd; subst. cbn. auto.
  - inversion Hd; subst. cbn. auto.
  - destruct (drain limitP f rest) as [[fs0 r0] e0] eqn:D. inversion Hd; subst; clear Hd.
    pose proof (ready_shrinks _ _ _ _ _ En) as Hs.
    cbn [cbs]. destruct (Z.eqb op 3).
    + destruct (readpublish body) as [[[i c] d]|]; [|cbn; repeat split; auto; discriminate].
      specialize (IH (deliver_msg i c d (setbufl rest s))). cbn [deliver_msg setbufl lbuf] in IH.
      specialize (IH ltac:(lia) _ _ _ D). cbn in IH. destruct IH as (H1 & H2 & H3 & H4).
      destruct (cbs fs0) as [l x]. cbn [fst snd] in *. rewrite H1. cbn [rev]. rewrite <- app_assoc. auto.
    + destruct (Z.eqb op 0).
      * destruct (readerror body) as [em|]; [|cbn; repeat split; auto; discriminate].
        specialize (IH (ev (LErrMsg em) (setbufl rest s))). cbn [ev setbufl lbuf] in IH.
        specialize (IH ltac:(lia) _ _ _ D). cbn in IH. destruct IH as (H1 & H2 & H3 & H4).
        destruct (cbs fs0) as [l x]. cbn [fst snd] in *. rewrite H1. cbn [rev]. rewrite <- app_assoc. auto.
      * specialize (IH (setbufl rest s)). cbn [setbufl lbuf] in IH.
        specialize (IH ltac:(lia) _ _ _ D). cbn in IH. exact IH.
Qed.

Lemma run_frames_lk n : forall x, lk (fst (run_frames n x)) = lk x.
Proof.
  induction n as [|n IH]; intros x; cbn [run_frames]; [reflexivity|].
  destruct (next limitP (lbuf x)); try reflexivity.
  destruct (Z.eqb op 3); [destruct (readpublish body) as [[[i c] dd]|]; [rewrite IH|]; reflexivity|].
  destruct (Z.eqb op 0); [destruct (readerror body); [rewrite IH|]; reflexivity|]. rewrite IH; reflexivity.
Qed.

(* Client.run, one successful recv(d) in the receive loop: the callbacks made are exactly those of the complete
   frames of buffer ++ d, in order; what stays buffered is the incomplete tail; a protocol violation disconnects *)
Theorem recv_hands_over_everything s d rest :
  lpcs s = PRecv -> lconnected s = true -> lrecv s = RData d :: rest ->
  forall fs r e, parse limitP (lbuf s ++ d) = (fs, r, e) ->
  let s' := lstep s in
  ltrace s' = match how_of (snd (cbs fs)) e with
              | O => [] | S O => [LDisconnected (lk s)] | _ => [LCrash] end ++ rev (fst (cbs fs)) ++ ltrace s /\
  (snd (cbs fs) = false -> lbuf s' = r) /\
  (snd (cbs fs) = false -> e = None -> next limitP (lbuf s') = NeedMore).
Proof.
  intros Hp Hc Hr fs r e Hparse. unfold lstep. rewrite Hp, Hc, Hr. cbn [negb].
  match goal with |- context [run_frames ?f ?x] =>
    pose proof (run_frames_spec f x) as K; pose proof (run_frames_lk f x) as Hk;
    destruct (run_frames f x) as [s3 how] eqn:Erf end.
  cbn in Hk.
  cbn [feedl lbuf] in K. specialize (K ltac:(lia) fs r e Hparse). cbn in K.
  destruct K as (K1 & K2 & K3 & K4). subst how.
  unfold how_of. destruct (snd (cbs fs)) eqn:Ex.
  - cbn. rewrite K1. repeat split; auto; discriminate.
  - destruct e as [c|].
    + cbn. rewrite K1, Hk. repeat split; auto. discriminate.
    + assert (Hn : next limitP r = NeedMore) by (eapply drain_residue; exact Hparse).
      destruct (lstopped s3); cbn; rewrite K1; repeat split; auto; intros; rewrite K4; auto.
Qed.

(* ---- C13: stop() ends run(); any loss leads back to a live, authenticated, resubscribed connection ---- *)
Lemma stopped_is_final s : lpcs s = PStop -> forall n, lrun n s = s.
Proof. intros H n. destruct n; cbn [lrun]; [reflexivity|]. rewrite H. reflexivity. Qed.

Lemma lrun_S n s : lpcs s <> PStop -> lrun (S n) s = lrun n (lstep s).
Proof. intros H. cbn [lrun]. destruct (lpcs s); try reflexivity. congruence. Qed.

Lemma run_frames_stopped n : forall x, lstopped x = true -> lstopped (fst (run_frames n x)) = true.
Proof.
  induction n as [|n IH]; intros x Hx; cbn [run_frames]; [exact Hx|].
  destruct (next limitP (lbuf x)); try exact Hx.
  destruct (Z.eqb op 3).
  - destruct (readpublish body) as [[[i c] dd]|]; [|exact Hx]. apply IH. cbn. rewrite Hx. reflexivity.
  - destruct (Z.eqb op 0); [destruct (readerror body); [apply IH|]; exact Hx|]. apply IH. exact Hx.
Qed.

(* once stop() has been called, run() ends as soon as the read it is blocked in completes - whatever that read
   returns - and the client makes no further connection attempt *)
Theorem stop_ends_run s :
  lpcs s = PRecv -> lstopped s = true -> lrecv s <> [] ->
  let s2 := lstep (lstep s) in
  lpcs s2 = PStop /\
  exists evs, ltrace s2 = evs ++ ltrace s /\ forallb no_attempt evs = true /\ (In LReturn evs \/ In LCrash evs).
Proof.
  intros Hp Hs Hr. unfold lstep at 2. rewrite Hp.
  destruct (lconnected s) eqn:Ec; cbn [negb].
  2:{ cbn. unfold lstep. cbn. rewrite Hs. cbn. split; [reflexivity|]. exists [LReturn]. cbn. auto. }
  destruct (lrecv s) as [|r rest]; [congruence|].
  destruct r as [d| | |].
  - match goal with |- context [run_frames ?f ?x] =>
      pose proof (run_frames_spec f x) as K; pose proof (run_frames_stopped f x) as St;
      destruct (run_frames f x) as [s3 how] eqn:Erf end.
    cbn [feedl lbuf lstopped] in K, St. specialize (St Hs). cbn in St.
    destruct (drain limitP (S (length (lbuf s ++ d))) (lbuf s ++ d)) as [[fs r] e] eqn:D.
    specialize (K ltac:(lia) fs r e eq_refl). cbn in K. destruct K as (K1 & _ & K3 & _).
    pose proof (cbs_callbacks fs) as Hcb.
    assert (Hna : forallb no_attempt (rev (fst (cbs fs))) = true).
    { rewrite forallb_forall in *. intros x Hx. apply in_rev in Hx. specialize (Hcb x Hx). destruct x; try discriminate; reflexivity. }
    destruct how as [|[|how]].
    + rewrite St. unfold lstep. cbn. rewrite St. cbn. split; [reflexivity|].
      exists (LReturn :: rev (fst (cbs fs))). rewrite K1. cbn. rewrite Hna. auto.
    + unfold lstep. cbn. rewrite St. cbn. split; [reflexivity|].
      exists (LReturn :: LDisconnected (lk s3) :: rev (fst (cbs fs))). rewrite K1. cbn. rewrite Hna. auto.
    + cbn. split; [reflexivity|].
      exists (LCrash :: rev (fst (cbs fs))). rewrite K1. cbn. rewrite Hna. auto.
  - cbn. rewrite ?Hs. unfold lstep. cbn. rewrite ?Hs. cbn. split; [reflexivity|]. exists [LReturn]. cbn. auto.
  - unfold lstep. cbn. rewrite ?Hs. cbn. split; [reflexivity|]. exists [LReturn; LDisconnected (lk s)]. cbn. auto.
  - unfold lstep. cbn. rewrite ?Hs. cbn. split; [reflexivity|]. exists [LReturn; LDisconnected (lk s)]. cbn. auto.
Qed.

(* every way of losing the connection leads back to tryconnect() *)
Theorem loss_in_receive_loop s r rest :
  lpcs s = PRecv -> lconnected s = true -> lstopped s = false -> lrecv s = r :: rest -> (r = REof \/ r = RErr) ->
  let s2 := lstep (lstep s) in lpcs s2 = PTry /\ lstopped s2 = false /\ lconn s2 = lconn s /\ lrecv s2 = rest /\ lsend s2 = lsend s /\ lsubs s2 = lsubs s /\ lk s2 = lk s.
Proof.
  intros Hp Hc Hs Hr [-> | ->]; unfold lstep at 2; rewrite Hp, Hc, Hr; cbn; unfold lstep; cbn; rewrite Hs; cbn; auto 10.
Qed.

Theorem loss_during_handshake s r rest :
  lpcs s = PAuth -> lrecv s = r :: rest ->
  (r = REof \/ r = RErr \/ r = RTimeout \/ exists d, r = RData d /\ next limitP (lbuf s ++ d) = NeedMore) ->
  let s1 := lstep s in lpcs s1 = PTry /\ lstopped s1 = lstopped s /\ lconn s1 = lconn s /\ lrecv s1 = rest /\ lsend s1 = lsend s /\ lsubs s1 = lsubs s /\ lk s1 = lk s.
Proof.
  intros Hp Hr H. unfold lstep. rewrite Hp, Hr.
  destruct H as [-> | [-> | [-> | [d [-> Hn]]]]]; cbn; try auto 10.
  rewrite Hn. cbn. auto 10.
Qed.

Theorem refused_attempt s rest :
  lpcs s = PTry -> lconn s = false :: rest ->
  let s1 := lstep s in lpcs s1 = PTry /\ lstopped s1 = lstopped s /\ lconn s1 = rest /\ lrecv s1 = lrecv s /\ lsend s1 = lsend s /\ lsubs s1 = lsubs s /\ lk s1 = lk s /\
                        ltrace s1 = LSleep :: LAttempt :: ltrace s.
Proof. intros Hp Hr. unfold lstep. rewrite Hp, Hr. cbn. auto 10. Qed.

Arguments lrun : simpl never.
Lemma subscribe_all : forall todo s, lpcs s = PSubscribe todo -> lsend s = [] ->
  let s' := lrun (S (length todo)) s in
  lpcs s' = PRecv /\ ltrace s' = rev (map (LSentSub (lk s)) todo) ++ ltrace s /\
  lconnected s' = lconnected s /\ lk s' = lk s /\ lrecv s' = lrecv s /\ lconn s' = lconn s /\ lstopped s' = lstopped s /\ lsubs s' = lsubs s.
Proof.
  induction todo as [|c t IH]; intros s Hp Hs.
  - cbn [length]. rewrite lrun_S by congruence. unfold lstep. rewrite Hp. cbn. auto 10.
  - cbn [length]. rewrite lrun_S by congruence.
    assert (E : lstep s = goto (PSubscribe t) (ev (LSentSub (lk s) c) s)).
    { unfold lstep, pop_send. rewrite Hp, Hs. reflexivity. }
    rewrite E. specialize (IH (goto (PSubscribe t) (ev (LSentSub (lk s) c) s)) eq_refl Hs).
    cbn in IH. destruct IH as (H1 & H2 & H3 & H4 & H5 & H6 & H7 & H8).
    cbn. rewrite H1, H2, H3, H4, H5, H6, H7, H8. rewrite <- app_assoc. cbn. auto 10.
Qed.

(* ... and from tryconnect(), as soon as the broker accepts and sends its OP_INFO, the client is back in its
   receive loop on a new connection, having sent OP_AUTH for that connection's nonce and OP_SUBSCRIBE for every
   wanted channel, in that order *)
Theorem reconnects_when_reachable s cs d rs body rest nm rand :
  lpcs s = PTry -> lstopped s = false -> lconn s = true :: cs -> lrecv s = RData d :: rs -> lsend s = [] ->
  next limitP d = Ready 1 body rest -> readinfo body = Some (nm, rand) ->
  let s' := lrun (4 + length (lsubs s)) s in
  let k := S (lk s) in
  lpcs s' = PRecv /\ lconnected s' = true /\ lk s' = k /\ lstopped s' = false /\ lrecv s' = rs /\ lconn s' = cs /\
  ltrace s' = rev (map (LSentSub k) (lsubs s)) ++ [LSentAuth k rand; LInfo k rand; LConnected k; LAttempt] ++ ltrace s.
Proof.
  intros Hp Hst Hc Hr Hs Hn Hi.
  change (4 + length (lsubs s))%nat with (S (S (S (S (length (lsubs s)))))).
  destruct s as [conn recv send subs buf connected stopped sa msgs k0 pc inrun tr rx]. cbn in *. subst.
  rewrite lrun_S by (cbn; congruence). cbn.
  rewrite lrun_S by (cbn; congruence). cbn. rewrite Hn. change (Z.eqb 1 1) with true. cbn. rewrite Hi. cbn.
  rewrite lrun_S by (cbn; congruence). cbn.
  match goal with |- context [lrun _ ?x] => pose proof (subscribe_all subs x eq_refl eq_refl) as K end.
  cbn in K. destruct K as (H1 & H2 & H3 & H4 & H5 & H6 & H7 & H8).
  rewrite H1, H2, H3, H4, H5, H6, H7. auto 10.
Qed.
