(* BrokerTrace.v — every callback is a finite sequence of primitive steps, each made on a state that
   satisfies Good.  New invariants then need one case per primitive (and one lemma about the fan-out
   loop of Server.publish) instead of another pass over all handlers.

   [pstep p s s']: one primitive step taken while handling an event of connection p. *)
From Coq Require Import ZArith List Bool Arith Lia.
From HP Require Import Bytes Sha1 Wire ParamsOK Broker BrokerSpec BrokerLemmas BrokerInv BrokerStep.
Import ListNotations.

Section Trace.
Variable bname : bytes.
Variable store : ident -> lookup.
Variable async_store : bool.
Notation Good := (Good (srow store) async_store).

(* changes only read-side bookkeeping *)
Definition inertf (f : conn -> conn) : Prop := forall c, core (f c) = core c /\ out (f c) = out c.
(* raises lost / aborted on a connection that is already closing *)
Definition flagf (f : conn -> conn) : Prop :=
  forall c, (made (f c), copen (f c), nonce (f c), ak (f c), pubchans (f c), subchans (f c), active (f c),
             closing (f c), out (f c)) =
            (made c, copen c, nonce c, ak c, pubchans c, subchans c, active c, closing c, out c).

Inductive pstep (p : nat) : state -> state -> Prop :=
| ps_inert f s : inertf f -> pstep p s (modc p f s)
| ps_wr f s : not_pub f -> pstep p s (wr p f s)
| ps_cl s : pstep p s (cl p s)
| ps_flags f s : closing (conns s p) = true -> flagf f -> pstep p s (modc p f s)
| ps_sub c s : copen (conns s p) = true ->
    (exists i r, last_auth (alog s) p = Some (i, r) /\ In c (r_sub r)) -> pstep p s (sub p c s)
| ps_unsub c s : last_auth (alog s) p <> None -> pstep p s (unsub p c s)
| ps_lostp s : copen (conns s p) = true -> pstep p s (lostp p s)
| ps_auth i r dg s : made (conns s p) = true -> dg = sha1 (nonce (conns s p) ++ r_secret r) ->
    (async_store = false -> store i = LRow r) ->
    pstep p s (logA (AAuth p i r dg)
                 (modc p (fun c => set_subchans (r_sub r) (set_pubchans (r_pub r) (set_ak (Some i) c))) (regauge p i s)))
| ps_publish c d i r s s' : last_auth (alog s) p = Some (i, r) -> In c (r_pub r) ->
    publish p c d s = Ok s' -> pstep p s s'
| ps_connect n s : made (conns s p) = false -> pstep p s (do_connect bname p n s)
| ps_abort s : pstep p s (abort p s).

Inductive psteps (p : nat) : state -> state -> Prop :=
| pss_refl s : psteps p s s
| pss_step s1 s2 s3 : pstep p s1 s2 -> psteps p s2 s3 -> psteps p s1 s3.

Lemma psteps_trans p s1 s2 s3 : psteps p s1 s2 -> psteps p s2 s3 -> psteps p s1 s3.
Proof. induction 1; intros; [assumption|]. econstructor; [eassumption|auto]. Qed.
Lemma psteps_one p s s' : pstep p s s' -> psteps p s s'.
Proof. intros. econstructor; [eassumption|constructor]. Qed.

Lemma pstep_good p s s' : Good s -> pstep p s s' -> Good s'.
Proof.
  intros G H. destruct H.
  - apply modc_inert_good; [exact G|]. intros c. apply H.
  - apply wr_good; assumption.
  - apply cl_good; exact G.
  - apply flags_good; assumption.
  - apply sub_good; assumption.
  - apply unsub_good; assumption.
  - apply lostp_good; assumption.
  - apply auth_set_good; try assumption. apply regauge_good. exact G.
  - destruct (publish_good (srow store) async_store p c d s i r G H H0) as (s'' & E & G'). congruence.
  - pose proof (do_connect_good bname store async_store p n s G) as X. exact X.
  - apply abort_good. exact G.
Qed.
Lemma psteps_good p s s' : Good s -> psteps p s s' -> Good s'.
Proof. intros G H. induction H; [exact G|]. apply IHpsteps. eapply pstep_good; eassumption. Qed.

(* ---- decomposition of the handlers ------------------------------------------------------------------- *)
Definition ktr (p : nat) (k : state -> res) : Prop := forall s, Good s -> psteps p s (st (k s)).

Lemma bad_tr p s : psteps p s (bad p s).
Proof. unfold bad. econstructor; [apply (ps_wr p FError); exact I|]. apply psteps_one. apply ps_cl. Qed.
Lemma inert_tr p f s : (forall c, core (f c) = core c /\ out (f c) = out c) -> psteps p s (modc p f s).
Proof. intros H. apply psteps_one. apply ps_inert. exact H. Qed.
Lemma pause_r_tr p s : psteps p s (pause_r p s).
Proof. unfold pause_r. destruct (_ || _); [constructor|]. apply inert_tr. intros c. split; reflexivity. Qed.
Lemma resume_r_tr p s : psteps p s (resume_r p s).
Proof. unfold resume_r. destruct (_ || _); [constructor|]. apply inert_tr. intros c. split; reflexivity. Qed.

Lemma authenticate_tr k p i dg l s :
  ktr p k -> Good s -> made (conns s p) = true -> (async_store = false -> store i = l) ->
  psteps p s (st (authenticate k p i dg l s)).
Proof.
  intros Hk G Hm Hs. unfold authenticate. destruct l as [|r]; [cbn; apply bad_tr|].
  destruct (bytes_eqb (sha1 (nonce (conns s p) ++ r_secret r)) dg) eqn:E; [|cbn; apply bad_tr].
  apply bytes_eqb_eq in E.
  match goal with |- context [k ?X] => assert (S1 : pstep p s X) by (apply ps_auth; auto) end.
  match goal with |- context [k ?X] =>
    assert (G1 : Good X) by (eapply pstep_good; eassumption);
    pose proof (Hk X G1) as T; destruct (k X) end; cbn in *.
  - econstructor; [exact S1|]. destruct (pending _); [eapply psteps_trans; [exact T|apply resume_r_tr]|exact T].
  - econstructor; eassumption.
  - econstructor; eassumption.
Qed.

Lemma on_auth_tr k p i dg s : ktr p k -> Good s -> psteps p s (st (fst (on_auth store async_store k p i dg s))).
Proof.
  intros Hk G. unfold on_auth. destruct (copen (conns s p)) eqn:Ho; cbn; [|constructor].
  destruct (Bool.bool_dec async_store true) as [Ea|Ea]; [|apply Bool.not_true_is_false in Ea].
  - rewrite (if_true_eq _ _ _ Ea). cbn.
    apply (psteps_trans p s (modc p (fun c => set_pending (pending c ++ [(i, dg)]) c) s));
      [apply inert_tr; intros c; split; reflexivity|apply pause_r_tr].
  - rewrite (if_false_eq _ _ _ Ea). cbn.
    apply authenticate_tr; auto. destruct G as (([_ _ _ _ _ _ _ I8] & _) & _). apply I8. exact Ho.
Qed.

Lemma on_publish_tr p i c d s : Good s -> psteps p s (st (on_publish p i c d s)).
Proof.
  intros G. unfold on_publish. destruct (ak (conns s p)) as [me|] eqn:Hak; [|cbn; apply bad_tr].
  destruct (bytes_eqb i me) eqn:E1; cbn; [|apply bad_tr].
  destruct (memc c (pubchans (conns s p))) eqn:E2; cbn; [|apply bad_tr].
  destruct (copen (conns s p)) eqn:E3; cbn; [|constructor].
  apply bytes_eqb_eq in E1. subst i.
  destruct (ak_some_link store async_store s p me G Hak) as (r & Hla & Hp & _).
  apply memc_In in E2. rewrite Hp in E2.
  destruct (publish_good (srow store) async_store p c d s me r G Hla E2) as (s' & Es & Gs). rewrite Es. cbn.
  apply psteps_one. eapply ps_publish; eassumption.
Qed.
Lemma on_subscribe_tr p c s : Good s -> ak (conns s p) <> None -> psteps p s (st (on_subscribe p c s)).
Proof.
  intros G Hak. unfold on_subscribe.
  destruct (memc c (subchans (conns s p))) eqn:E2; cbn; [|apply bad_tr].
  destruct (copen (conns s p)) eqn:E3; cbn; [|constructor].
  destruct (ak (conns s p)) as [me|] eqn:Ek; [|congruence].
  destruct (ak_some_link store async_store s p me G Ek) as (r & Hla & _ & Hs).
  apply memc_In in E2. rewrite Hs in E2.
  apply psteps_one. apply ps_sub; [exact E3|]. exists me, r. auto.
Qed.
Lemma on_unsubscribe_tr p c s : Good s -> ak (conns s p) <> None -> psteps p s (st (on_unsubscribe p c s)).
Proof.
  intros G Hak. unfold on_unsubscribe. destruct (copen (conns s p)) eqn:E3; cbn; [|constructor].
  destruct (ak (conns s p)) as [me|] eqn:Ek; [|congruence].
  destruct (ak_some_link store async_store s p me G Ek) as (r & Hla & _).
  apply psteps_one. apply ps_unsub. rewrite Hla. discriminate.
Qed.

Lemma handle_tr k p op body s : ktr p k -> Good s -> psteps p s (st (fst (handle store async_store k p op body s))).
Proof.
  intros Hk G. unfold handle. destruct (Z.eqb op 2).
  { destruct (readauth body) as [[i dg]|]; [apply on_auth_tr; assumption|constructor]. }
  destruct (ak (conns s p)) as [me|] eqn:Hak; [|cbn; apply bad_tr].
  assert (Hne : ak (conns s p) <> None) by congruence.
  destruct (Z.eqb op 3).
  { destruct (readpublish body) as [[[i3 c3] d3]|]; [apply on_publish_tr; exact G|constructor]. }
  destruct (Z.eqb op 4).
  { destruct (readsubscribe body) as [[i4 c4]|]; [apply on_subscribe_tr; assumption|constructor]. }
  destruct (Z.eqb op 5).
  { destruct (readunsubscribe body) as [[i5 c5]|]; [apply on_unsubscribe_tr; assumption|constructor]. }
  constructor.
Qed.

Lemma pp_tr fuel p : ktr p (pp store async_store fuel p).
Proof.
  induction fuel as [|f IH]; intros s G; [constructor|].
  cbn [pp]. destruct (next limitP (buf (conns s p))) as [|c|op body rest].
  - constructor.
  - cbn. apply psteps_one. apply ps_cl.
  - set (s1 := modc p (set_buf rest) s).
    assert (T1 : psteps p s s1) by (apply inert_tr; intros c; split; reflexivity).
    assert (G1 : Good s1) by (eapply psteps_good; eassumption).
    pose proof (handle_tr (pp store async_store f p) p op body s1 IH G1) as H.
    assert (G2 : Good (st (fst (handle store async_store (pp store async_store f p) p op body s1)))) by (eapply psteps_good; eassumption).
    destruct (handle _ _ _ _ _ _ s1) as [r b]. cbn in H, G2.
    destruct r as [s2|s2|s2]; cbn; try (eapply psteps_trans; eassumption).
    destruct b; [eapply psteps_trans; eassumption|].
    eapply psteps_trans; [exact T1|]. eapply psteps_trans; [exact H|apply IH; exact G2].
Qed.
Lemma ppq_tr p : ktr p (ppq store async_store p).
Proof. intros s G. unfold ppq. apply pp_tr. exact G. Qed.

(* which connection an event belongs to; a clock tick acts on every connection in turn *)
Inductive esteps : state -> state -> Prop :=
| es_refl s : esteps s s
| es_conn p s1 s2 s3 : psteps p s1 s2 -> esteps s2 s3 -> esteps s1 s3.
Lemma esteps_of p s s' : psteps p s s' -> esteps s s'.
Proof. intros. econstructor; [eassumption|constructor]. Qed.
Lemma esteps_good s s' : Good s -> esteps s s' -> Good s'.
Proof. intros G H. induction H; [exact G|]. apply IHesteps. eapply psteps_good; eassumption. Qed.

Definition actor (e : event) : option nat :=
  match e with
  | Connect q _ | Data q _ | PeerClosed q | Lost q | LookupDone q _ | PauseW q | ResumeW q => Some q
  | Tick => None
  end.

Lemma step_conn_tr s e p : Good s -> actor e = Some p -> psteps p s (step bname store async_store s e).
Proof.
  intros G Ha. destruct e; cbn in Ha; inversion Ha; subst; cbn [step].
  - unfold do_connect. destruct (made (conns s p)) eqn:Hm; [constructor|].
    apply psteps_one. pose proof (ps_connect p n s Hm) as X. unfold do_connect in X. rewrite Hm in X. exact X.
  - unfold do_data. destruct (can_read _); [|constructor].
    match goal with |- context [ppq _ _ p ?X] =>
      assert (T1 : psteps p s X) by (apply inert_tr; intros c; split; reflexivity);
      assert (G1 : Good X) by (eapply psteps_good; eassumption);
      pose proof (ppq_tr p X G1) as T2; destruct (ppq _ _ p X) end; cbn in T2.
    + eapply psteps_trans; eassumption.
    + eapply psteps_trans; [exact T1|]. eapply psteps_trans; [exact T2|]. apply psteps_one. apply ps_abort.
    + eapply psteps_trans; eassumption.
  - unfold do_peer_closed. destruct (can_read _); [apply psteps_one; apply ps_cl|constructor].
  - unfold do_lost. destruct (_ && _); [|constructor].
    econstructor; [apply ps_cl|].
    pose proof (cl_closing p s) as Hc. set (s1 := cl p s) in *.
    destruct (copen (conns s1 p)) eqn:Ho.
    + econstructor; [apply ps_lostp; exact Ho|].
      apply psteps_one. apply ps_flags; [|intros c; reflexivity].
      unfold lostp. cbn. unfold upd. rewrite Nat.eqb_refl. cbn.
      destruct (unsub_all_frame (active (conns s1 p)) s1 p) as (_ & _ & Fr). apply rest_inv in Fr.
      destruct Fr as (_ & _ & _ & _ & _ & _ & _ & _ & Fcl & _). unfold unsub_all in Fcl. rewrite Fcl. exact Hc.
    + apply psteps_one. apply ps_flags; [exact Hc|intros c; reflexivity].
  - unfold do_lookup_done.
    destruct (Bool.bool_dec async_store true) as [Ea|Ea].
    2:{ apply Bool.not_true_is_false in Ea.
        replace (negb (async_store && made (conns s p))) with true by (rewrite Ea; reflexivity). constructor. }
    destruct (made (conns s p)) eqn:Hm.
    2:{ rewrite andb_false_r. constructor. }
    replace (negb (async_store && true)) with false by (rewrite Ea; reflexivity).
    destruct (pending (conns s p)) as [|[i dg] rest]; [constructor|].
    set (s1 := modc p (set_pending rest) s).
    assert (T1 : psteps p s s1) by (apply inert_tr; intros c; split; reflexivity).
    assert (G1 : Good s1) by (eapply psteps_good; eassumption).
    destruct r as [l|]; [|eapply psteps_trans; [exact T1|apply bad_tr]].
    assert (TA : psteps p s1 (st (authenticate (ppq store async_store p) p i dg l s1))).
    { apply authenticate_tr; [apply ppq_tr|exact G1| |intros E; congruence].
      subst s1. cbn. unfold upd. rewrite Nat.eqb_refl. cbn. exact Hm. }
    destruct (authenticate (ppq store async_store p) p i dg l s1); cbn in *.
    + eapply psteps_trans; eassumption.
    + eapply psteps_trans; [exact T1|]. eapply psteps_trans; [exact TA|apply psteps_one; apply ps_cl].
    + eapply psteps_trans; eassumption.
  - unfold do_pausew. destruct (_ && _); [|constructor]. apply inert_tr; intros c; split; reflexivity.
  - unfold do_resumew. destruct (_ && _); [|constructor]. apply inert_tr; intros c; split; reflexivity.
Qed.

Lemma tick1_tr s q : psteps q s (tick1 s q).
Proof.
  unfold tick1. destruct (timer (conns s q)); [|constructor]. destruct (_ <=? _)%nat.
  - apply (psteps_trans q s (modc q (set_timer None) s)); [apply inert_tr; intros c; split; reflexivity|apply bad_tr].
  - apply inert_tr; intros c; split; reflexivity.
Qed.

Theorem step_tr s e : Good s -> esteps s (step bname store async_store s e).
Proof.
  intros G. destruct (actor e) as [p|] eqn:Ha.
  - apply (esteps_of p). apply step_conn_tr; assumption.
  - destruct e; try discriminate. cbn [step]. unfold do_tick. generalize (rev (ids s)). intros l. clear G. revert s.
    induction l as [|q l IH]; intros s; cbn; [constructor|].
    econstructor; [apply tick1_tr|apply IH].
Qed.

End Trace.
