(* BrokerDeadline.v — C15 over whole histories: the deadline of a stalled connection counts exactly the clock ticks.
   If connection q has n seconds left and neither stalls again, drains nor is (re)created, then after ANY list of
   events containing k < n ticks it has n - k seconds left (it has not been dropped by the deadline), and the tick
   that brings the count to zero sends OP_ERROR and closes it.  Needs: the broker's list of connections [ids] holds
   every made connection exactly once (IdsOK, an invariant of every reachable state). *)
From Coq Require Import ZArith List Bool Arith Lia.
From HP Require Import Bytes Sha1 Wire WireFacts ParamsOK Broker BrokerSpec BrokerLemmas BrokerInv BrokerStep BrokerTrace BrokerEvo
                       BrokerLocal BrokerProps BrokerTimer.
Import ListNotations.

(* ---- ids / made are touched by nothing but the creation of a connection ---- *)
Definition sameim (s s' : state) : Prop := ids s' = ids s /\ forall q, made (conns s' q) = made (conns s q).
Lemma sameim_refl s : sameim s s. Proof. split; auto. Qed.
Lemma sameim_trans a b c : sameim a b -> sameim b c -> sameim a c.
Proof. intros [X1 X2] [Y1 Y2]. split; [congruence|]. intros q. rewrite Y2, X2. reflexivity. Qed.
Lemma modc_sameim q f s : (forall c, made (f c) = made c) -> sameim s (modc q f s).
Proof. intros H. split; [reflexivity|]. intros q'. cbn. unfold upd. destruct (Nat.eqb_spec q' q); subst; auto. Qed.
Lemma wr_sameim q f s : sameim s (wr q f s).
Proof. unfold wr. destruct (_ || _); [apply sameim_refl|]. apply modc_sameim. reflexivity. Qed.
Lemma cl_sameim q s : sameim s (cl q s).
Proof.
  unfold cl. destruct (closing _); [apply sameim_refl|]. split; [reflexivity|].
  intros q'. cbn. unfold upd. destruct (Nat.eqb_spec q' q); subst; reflexivity.
Qed.
Lemma bad_sameim q s : sameim s (bad q s).
Proof. unfold bad. eapply sameim_trans; [apply wr_sameim|apply cl_sameim]. Qed.
Lemma sub_sameim q c s : sameim s (sub q c s).
Proof.
  unfold sub, sub_raw. split; [destruct (memc _ _); reflexivity|].
  intros q'. destruct (memc _ _); cbn; [reflexivity|]. unfold upd. destruct (Nat.eqb_spec q' q); subst; reflexivity.
Qed.
Lemma unsub_raw_sameim q c s : sameim s (unsub_raw q c s).
Proof.
  unfold unsub_raw. destruct (memc _ _); cbn; [|apply sameim_refl]. split; [reflexivity|].
  intros q'. cbn. unfold upd. destruct (Nat.eqb_spec q' q); subst; reflexivity.
Qed.
Lemma unsub_sameim q c s : sameim s (unsub q c s).
Proof. unfold unsub. destruct (unsub_raw_sameim q c s) as [A B]. split; [exact A|exact B]. Qed.
Lemma unsub_all_sameim q l : forall s0, sameim s0 (fold_left (fun s c => unsub_raw q c s) l s0).
Proof. induction l as [|c l IH]; intros s0; cbn; [apply sameim_refl|]. eapply sameim_trans; [apply unsub_raw_sameim|apply IH]. Qed.
Lemma lostp_sameim q s : sameim s (lostp q s).
Proof.
  unfold lostp. destruct (unsub_all_sameim q (active (conns s q)) s) as [A B].
  split; [exact A|]. intros q'. cbn. unfold upd. destruct (Nat.eqb_spec q' q); subst; cbn; apply B.
Qed.
Lemma deliver_sameim i c d r dest : sameim (st r) (st (deliver i c d r dest)).
Proof.
  unfold deliver. destruct r as [s|s|s]; cbn; try apply sameim_refl.
  destruct (closing _); [destruct (copen _); cbn; [apply lostp_sameim|apply sameim_refl]|cbn; apply wr_sameim].
Qed.
Lemma publish_sameim p c d s : sameim s (st (publish p c d s)).
Proof.
  unfold publish. assert (X : forall l r, sameim (st r) (st (fold_left (deliver (akl (conns s p)) c d) l r))).
  { induction l as [|x l IH]; intros r; cbn; [apply sameim_refl|]. eapply sameim_trans; [apply deliver_sameim|apply IH]. }
  eapply sameim_trans; [|apply (X _ (Ok _))]. split; reflexivity.
Qed.

Definition IdsOK (s : state) : Prop := NoDup (ids s) /\ forall q, In q (ids s) <-> made (conns s q) = true.
Lemma sameim_IdsOK s s' : sameim s s' -> IdsOK s -> IdsOK s'.
Proof. intros [A B] [N H]. split; [rewrite A; exact N|]. intros q. rewrite A, B. apply H. Qed.

Section D.
Variable bname : bytes.
Variable store : ident -> lookup.
Variable async_store : bool.
Notation step := (step bname store async_store).
Notation run := (run bname store async_store).
Notation Good := (Good (srow store) async_store).

Lemma pstep_IdsOK p s s' : pstep bname store async_store p s s' -> IdsOK s -> IdsOK s'.
Proof.
  intros H. destruct H; intros I.
  - eapply sameim_IdsOK; [|exact I]. apply modc_sameim. intros c. destruct (H c) as [Hc _]. apply core_inv in Hc. apply Hc.
  - eapply sameim_IdsOK; [apply wr_sameim|exact I].
  - eapply sameim_IdsOK; [apply cl_sameim|exact I].
  - eapply sameim_IdsOK; [|exact I]. apply modc_sameim. intros c. specialize (H0 c). congruence.
  - eapply sameim_IdsOK; [apply sub_sameim|exact I].
  - eapply sameim_IdsOK; [apply unsub_sameim|exact I].
  - eapply sameim_IdsOK; [apply lostp_sameim|exact I].
  - eapply sameim_IdsOK; [|exact I]. split; [reflexivity|]. intros q. cbn. unfold upd. destruct (Nat.eqb_spec q p); subst; reflexivity.
  - eapply sameim_IdsOK; [|exact I]. pose proof (publish_sameim p c d s) as X. rewrite H1 in X. exact X.
  - (* connect *)
    destruct I as [N Hi]. unfold do_connect. rewrite H.
    match goal with |- IdsOK (wr p ?f ?x) => apply (sameim_IdsOK x); [apply wr_sameim|] end.
    split.
    + cbn. constructor; [|exact N]. intros K. apply Hi in K. congruence.
    + intros q. cbn. unfold upd. destruct (Nat.eqb_spec q p) as [->|Nq]; cbn.
      * split; auto.
      * split; [intros [K|K]; [congruence|apply Hi; exact K]|intros K; right; apply Hi; exact K].
  - eapply sameim_IdsOK; [|exact I]. unfold abort. eapply sameim_trans; [apply (modc_sameim p (set_aborted true)); reflexivity|apply cl_sameim].
Qed.
Lemma psteps_IdsOK p s s' : psteps bname store async_store p s s' -> IdsOK s -> IdsOK s'.
Proof. induction 1; intros I; [exact I|]. apply IHpsteps. eapply pstep_IdsOK; eassumption. Qed.
Lemma esteps_IdsOK s s' : esteps bname store async_store s s' -> IdsOK s -> IdsOK s'.
Proof. induction 1; intros I; [exact I|]. apply IHesteps. eapply psteps_IdsOK; eassumption. Qed.

Theorem step_IdsOK s e : Good s -> IdsOK s -> IdsOK (step s e).
Proof. intros G I. eapply esteps_IdsOK; [apply step_tr; exact G|exact I]. Qed.

(* ---- one clock tick, seen from one connection ---- *)
Lemma tick1_tw_other s x q : q <> x -> tw (conns (tick1 s x) q) = tw (conns s q).
Proof.
  intros N. unfold tick1. destruct (timer (conns s x)) as [n|]; [|reflexivity].
  destruct (n <=? 1)%nat.
  - rewrite (bad_sametw x (modc x (set_timer None) s) q). cbn. unfold upd. destruct (Nat.eqb_spec q x); [congruence|reflexivity].
  - cbn. unfold upd. destruct (Nat.eqb_spec q x); [congruence|reflexivity].
Qed.
Lemma ticks_tw_skip l : forall s q, ~ In q l -> tw (conns (fold_left tick1 l s) q) = tw (conns s q).
Proof.
  induction l as [|x l IH]; intros s q H; cbn; [reflexivity|].
  rewrite IH by (intros K; apply H; right; exact K). apply tick1_tw_other. intros E. apply H. left. congruence.
Qed.
Definition count_down (t : option nat) : option nat :=
  match t with Some n => if (n <=? 1)%nat then None else Some (n - 1)%nat | None => None end.
Lemma tick1_timer_self s q : timer (conns (tick1 s q) q) = count_down (timer (conns s q)).
Proof.
  destruct (timer (conns s q)) as [n|] eqn:E; cbn [count_down].
  - pose proof (tick1_effect s q n E) as T. destruct (n <=? 1)%nat.
    + apply T.
    + destruct T as [T _]. rewrite T. cbn. unfold upd. rewrite Nat.eqb_refl. reflexivity.
  - unfold tick1. rewrite E. exact E.
Qed.
Lemma do_tick_timer s q : NoDup (ids s) -> In q (ids s) ->
  timer (conns (do_tick s) q) = count_down (timer (conns s q)).
Proof.
  intros N I. unfold do_tick. apply NoDup_rev in N. apply in_rev in I. revert N I. generalize (rev (ids s)). intros l. revert s.
  induction l as [|x l IH]; intros s N I; [contradiction|]. cbn [fold_left]. inversion N as [|? ? Nx Nl]; subst.
  destruct I as [->|I].
  - pose proof (ticks_tw_skip l (tick1 s q) q Nx) as T. unfold tw in T. injection T. intros _ T1. rewrite T1. apply tick1_timer_self.
  - rewrite (IH (tick1 s x) Nl I). f_equal.
    assert (q <> x) by (intros ->; contradiction).
    pose proof (tick1_tw_other s x q H) as T. unfold tw in T. injection T. intros _ T1. exact T1.
Qed.
(* the last second: OP_ERROR is written and the connection is closing afterwards *)
Lemma set_timer_evo y t s : evo bname s (modc y (set_timer t) s).
Proof. apply modc_evo. intros c. repeat split; auto. exists []. reflexivity. Qed.
Lemma tick1_evo s y : evo bname s (tick1 s y).
Proof.
  unfold tick1. destruct (timer (conns s y)); [|apply evo_refl]. destruct (_ <=? _)%nat.
  - eapply evo_trans; [apply set_timer_evo|apply bad_evo].
  - apply set_timer_evo.
Qed.
Lemma ticks_keep_closing l : forall s q, closing (conns s q) = true -> made (conns s q) = true ->
  closing (conns (fold_left tick1 l s) q) = true.
Proof.
  induction l as [|y l IH]; intros s q Hc Hm; cbn; [exact Hc|].
  pose proof (tick1_evo s y) as E.
  apply IH; [apply (e_closing bname _ _ E q Hm Hc)|apply (e_made bname _ _ E q Hm)].
Qed.
Lemma ticks_fire l : forall s q, NoDup l -> In q l -> made (conns s q) = true -> timer (conns s q) = Some 1%nat ->
  closing (conns (fold_left tick1 l s) q) = true.
Proof.
  induction l as [|x l IH]; intros s q N I Hm Ht; [contradiction|]. cbn [fold_left]. inversion N as [|? ? Nx Nl]; subst.
  destruct I as [->|I].
  - pose proof (tick1_effect s q 1 Ht) as T. cbn in T. destruct T as (_ & Tc & _).
    apply ticks_keep_closing; [exact Tc|]. apply (e_made bname _ _ (tick1_evo s q) q Hm).
  - assert (Nq : q <> x) by (intros ->; contradiction).
    apply (IH (tick1 s x) q Nl I).
    + apply (e_made bname _ _ (tick1_evo s x) q Hm).
    + pose proof (tick1_tw_other s x q Nq) as T. unfold tw in T. injection T. intros _ T1. rewrite T1. exact Ht.
Qed.
Lemma do_tick_fires s q : IdsOK s -> In q (ids s) -> timer (conns s q) = Some 1%nat ->
  closing (conns (do_tick s) q) = true.
Proof.
  intros [N Hi] I Ht. unfold do_tick. apply ticks_fire; [apply NoDup_rev; exact N|apply in_rev in I; exact I|apply Hi; exact I|exact Ht].
Qed.

(* ---- the chain ---- *)
Definition is_tick (e : event) : bool := match e with Tick => true | _ => false end.
Definition nticks (es : list event) : nat := length (filter is_tick es).
(* events that are not a new stall, a drain or the (re)creation of q itself *)
Definition leaves_deadline (q : nat) (e : event) : bool :=
  match e with PauseW p | ResumeW p | Connect p _ => negb (Nat.eqb p q) | _ => true end.

Lemma other_timer s e q : leaves_deadline q e = true -> is_tick e = false ->
  timer (conns (step s e) q) = timer (conns s q).
Proof.
  intros Hl Ht. pose proof (timer_frame bname store async_store s e) as F.
  destruct e; cbn in Hl, Ht; try discriminate;
    try (specialize (F q); unfold tw in F; injection F; intros _ F1; exact F1).
  - apply negb_true_iff, Nat.eqb_neq in Hl. cbn [Broker.step].
    pose proof (connect_timer bname q0 n s q ltac:(congruence)) as T. unfold tw in T. injection T. auto.
  - apply negb_true_iff, Nat.eqb_neq in Hl. cbn [Broker.step]. unfold do_pausew.
    destruct (_ && _); [|reflexivity]. cbn. unfold upd. destruct (Nat.eqb_spec q q0); [congruence|reflexivity].
  - apply negb_true_iff, Nat.eqb_neq in Hl. cbn [Broker.step]. unfold do_resumew.
    destruct (_ && _); [|reflexivity]. cbn. unfold upd. destruct (Nat.eqb_spec q q0); [congruence|reflexivity].
Qed.

Lemma step_keeps_member s e q : Good s -> IdsOK s -> In q (ids s) -> In q (ids (step s e)).
Proof.
  intros G I Hq. destruct (step_IdsOK s e G I) as [_ Hi']. apply Hi'.
  destruct I as [_ Hi]. apply Hi in Hq.
  apply (e_made bname _ _ (step_evo bname store async_store s e) q Hq).
Qed.

(* for ANY list of events that contains no new stall / drain / creation of q: the seconds left on q's deadline are
   what they were minus the number of clock ticks, as long as that number is below them - the deadline has not fired *)
Theorem deadline_counts_ticks q : forall es s n,
  Good s -> IdsOK s -> In q (ids s) -> timer (conns s q) = Some n ->
  forallb (leaves_deadline q) es = true -> (nticks es < n)%nat ->
  timer (conns (fold_left step es s) q) = Some (n - nticks es)%nat.
Proof.
  induction es as [|e es IH]; intros s n G I Hq Ht Hl Hk.
  - cbn. rewrite Nat.sub_0_r. exact Ht.
  - cbn [forallb] in Hl. apply andb_true_iff in Hl. destruct Hl as [Hle Hl]. cbn [fold_left].
    pose proof (step_good bname store async_store s e G) as G'.
    pose proof (step_IdsOK s e G I) as I'.
    pose proof (step_keeps_member s e q G I Hq) as Hq'.
    unfold nticks in *. cbn [filter] in *. destruct (is_tick e) eqn:Et.
    + destruct e; try discriminate. cbn [length] in *.
      assert (Hn : timer (conns (step s Tick) q) = Some (n - 1)%nat).
      { cbn [Broker.step]. rewrite (do_tick_timer s q (proj1 I) Hq), Ht. cbn [count_down].
        destruct (Nat.leb_spec n 1); [lia|reflexivity]. }
      rewrite (IH (step s Tick) (n - 1)%nat G' I' Hq' Hn Hl ltac:(lia)). f_equal. lia.
    + rewrite (IH (step s e) n G' I' Hq'); auto. rewrite (other_timer s e q Hle Et). exact Ht.
Qed.

(* ... and the tick that uses up the last second sends OP_ERROR and closes the connection: dropped at the deadline *)
Theorem deadline_fires q es s n :
  Good s -> IdsOK s -> In q (ids s) -> timer (conns s q) = Some (S n) ->
  forallb (leaves_deadline q) es = true -> nticks es = n ->
  let s' := fold_left step es s in
  timer (conns s' q) = Some 1%nat /\ closing (conns (step s' Tick) q) = true /\ timer (conns (step s' Tick) q) = None.
Proof.
  intros G I Hq Ht Hl Hk. cbv zeta.
  pose proof (deadline_counts_ticks q es s (S n) G I Hq Ht Hl ltac:(lia)) as T.
  replace (S n - nticks es)%nat with 1%nat in T by lia.
  assert (Gs : forall es0 s0, Good s0 -> IdsOK s0 -> In q (ids s0) ->
               Good (fold_left step es0 s0) /\ IdsOK (fold_left step es0 s0) /\ In q (ids (fold_left step es0 s0))).
  { induction es0 as [|e es0 IH0]; intros s0 G0 I0 H0; cbn; [auto|].
    apply IH0; [apply step_good; exact G0|apply step_IdsOK; assumption|apply step_keeps_member; assumption]. }
  destruct (Gs es s G I Hq) as (G' & I' & Hq').
  split; [exact T|]. cbn [Broker.step]. split.
  - apply do_tick_fires; assumption.
  - rewrite (do_tick_timer _ q (proj1 I') Hq'), T. reflexivity.
Qed.

Theorem run_IdsOK h : IdsOK (run h).
Proof.
  unfold Broker.run. assert (X : forall s, Good s -> IdsOK s -> IdsOK (fold_left step h s)).
  { induction h as [|e h IH]; intros s G I; cbn; [exact I|]. apply IH; [apply step_good; exact G|apply step_IdsOK; assumption]. }
  apply X; [apply (run_good bname store async_store [])|].
  split; [constructor|]. intros q. cbn. split; [contradiction|discriminate].
Qed.

(* the whole episode, from any reachable state: a stall of a live connection starts a 60-second count; whatever else
   happens (other connections' traffic, this connection's own frames, losses, lookups, other stalls and drains), after
   k < 60 ticks the deadline has not fired and 60 - k seconds are left; the 60th tick sends OP_ERROR and closes *)
Theorem stall_then_exactly_grace h q es :
  let s := run h in
  made (conns s q) = true -> lost (conns s q) = false -> wpaused (conns s q) = false ->
  forallb (leaves_deadline q) es = true ->
  let s1 := fold_left step es (step s (PauseW q)) in
  ((nticks es < grace)%nat -> timer (conns s1 q) = Some (grace - nticks es)%nat) /\
  (nticks es = (grace - 1)%nat -> closing (conns (step s1 Tick) q) = true /\ timer (conns (step s1 Tick) q) = None).
Proof.
  cbv zeta. intros Hm Hl Hw Hes.
  pose proof (run_good bname store async_store h) as G. pose proof (run_IdsOK h) as I.
  assert (Hq : In q (ids (run h))) by (apply (proj2 I); exact Hm).
  pose proof (step_good bname store async_store _ (PauseW q) G) as G1.
  pose proof (step_IdsOK _ (PauseW q) G I) as I1.
  pose proof (step_keeps_member _ (PauseW q) q G I Hq) as Hq1.
  assert (Ht : timer (conns (step (run h) (PauseW q)) q) = Some grace).
  { cbn [Broker.step]. destruct (pausew_effect q (run h) Hm Hl Hw) as (T & _). unfold tw in T. injection T. auto. }
  split.
  - intros Hk. apply deadline_counts_ticks; assumption.
  - intros Hk. change grace with (S (grace - 1)) in Ht.
    destruct (deadline_fires q es _ (grace - 1)%nat G1 I1 Hq1 Ht Hes Hk) as (_ & A & B). split; assumption.
Qed.
End D.
