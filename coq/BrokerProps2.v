(* BrokerProps2.v — run-level corollaries of frame locality, used by Properties/C10, C14, C15. *)
From Coq Require Import ZArith List Bool Arith.
From HP Require Import Bytes Sha1 Wire Broker BrokerSpec BrokerLemmas BrokerInv BrokerStep BrokerTrace BrokerLocal BrokerProps.
Import ListNotations.

Section P2.
Variable bname : bytes. Variable store : ident -> lookup. Variable async_store : bool.
Notation run := (run bname store async_store).
Notation step := (step bname store async_store).

Theorem frame_local_run h e p q : actor e = Some p -> q <> p ->
  untouched (conns (run h) q) (conns (step (run h) e) q).
Proof. apply event_local. apply run_good. Qed.
Theorem tick_local_run h q : timer (conns (run h) q) = None ->
  untouched (conns (run h) q) (conns (step (run h) Tick) q).
Proof. apply (tick_local bname store async_store). apply run_good. Qed.
Theorem permitted_subscribe_ok q c s : In c (subchans (conns s q)) -> copen (conns s q) = true ->
  on_subscribe q c s = Ok (sub q c s).
Proof. intros Hc Ho. unfold on_subscribe. apply memc_In in Hc. rewrite Hc, Ho. reflexivity. Qed.
Theorem good_always h : Good (srow store) async_store (run h).
Proof. apply run_good. Qed.
End P2.
