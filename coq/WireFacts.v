(* WireFacts.v — lemmas about Wire.v: append-monotonicity of the decoder, chunk independence,
   totality and bounds, builder/decoder round trips.  For any limit function. *)
From Coq Require Import ZArith List Lia Bool ZifyBool.
From Coq Require Import Strings.Byte.
From HP Require Import Bytes Utf8 Sha1 Wire.
Import ListNotations.
Open Scope Z_scope.

(* be32 inverts de32 on non-negative values *)
Lemma be32_de32 b0 b1 b2 b3 : 0 <= de32 b0 b1 b2 b3 -> be32 (de32 b0 b1 b2 b3) = [b0;b1;b2;b3].
Proof.
  unfold de32. cbv zeta.
  pose proof (bz_range b0); pose proof (bz_range b1); pose proof (bz_range b2); pose proof (bz_range b3).
  destruct (_ >=? _) eqn:G; intros Hn; [lia|].
  set (u := bz b0 * 16777216 + bz b1 * 65536 + bz b2 * 256 + bz b3).
  unfold be32.
  assert (E0 : zb (u / 16777216) = b0). { rewrite <- (zb_bz b0). f_equal. unfold u. lia. }
  assert (E1 : zb (u / 65536) = b1).
  { apply bz_inj. rewrite bz_zb_mod. unfold u. lia. }
  assert (E2 : zb (u / 256) = b2).
  { apply bz_inj. rewrite bz_zb_mod. unfold u. lia. }
  assert (E3 : zb u = b3).
  { apply bz_inj. rewrite bz_zb_mod. unfold u. lia. }
  rewrite E0, E1, E2, E3. reflexivity.
Qed.

Lemma hdr_length op body : zlen (hdr op body) = 5 + zlen body.
Proof. unfold hdr, be32, zlen. cbn [app length]. lia. Qed.

(* ---- field readers invert the field builders ------------------------------------------------ *)
Lemma strunpack8_strpack8 x p rest :
  utf8_valid x = true -> strpack8 x = Some p -> strunpack8 (p ++ rest) = Some (x, rest).
Proof.
  unfold strpack8. intros Hv. destruct (zlen x <=? 255) eqn:E; [|discriminate].
  intros H; inversion H; subst; clear H. cbn [app strunpack8].
  pose proof (zlen_nonneg x). rewrite bz_zb by lia.
  replace (Z.to_nat (zlen x)) with (length x) by (unfold zlen; lia).
  rewrite firstn_app_exact, skipn_app_exact, Hv. reflexivity.
Qed.

Section Facts.
Variable limit : Z -> Z.
Notation next := (next limit).
Notation drain := (drain limit).
Notation parse := (parse limit).
Notation feed := (feed limit).
Notation ufeed := (ufeed limit).
Notation feed_all := (feed_all limit).
Notation wf_frame := (wf_frame limit).

(* ---- one decision --------------------------------------------------------------------- *)
Lemma next_ready_app buf x op body rest :
  next buf = Ready op body rest -> next (buf ++ x) = Ready op body (rest ++ x).
Proof.
  destruct buf as [|b0 [|b1 [|b2 [|b3 [|o tl]]]]]; try discriminate.
  cbn [Wire.next app]. set (ml := de32 b0 b1 b2 b3).
  destruct (5 <? bz o) eqn:E1; try discriminate.
  destruct (limit (bz o) <? ml) eqn:E2; try discriminate.
  destruct (ml <? 5) eqn:E3; try discriminate.
  destruct (zlen (b0 :: b1 :: b2 :: b3 :: o :: tl) <? ml) eqn:E4; try discriminate.
  intros H; inversion H; subst; clear H.
  assert (L: (Z.to_nat (ml - 5) <= length tl)%nat).
  { unfold zlen in E4. cbn [length] in E4. lia. }
  assert (E5: zlen (b0 :: b1 :: b2 :: b3 :: o :: tl ++ x) <? ml = false).
  { unfold zlen in *. cbn [length] in *. rewrite app_length. lia. }
  rewrite E5. f_equal.
  - rewrite firstn_app. replace (Z.to_nat (ml-5) - length tl)%nat with 0%nat by lia.
    cbn. rewrite app_nil_r. reflexivity.
  - rewrite skipn_app. replace (Z.to_nat (ml-5) - length tl)%nat with 0%nat by lia. reflexivity.
Qed.

Lemma next_bad_app buf x c : next buf = Bad c -> next (buf ++ x) = Bad c.
Proof.
  destruct buf as [|b0 [|b1 [|b2 [|b3 [|o tl]]]]]; try discriminate.
  cbn [Wire.next app]. set (ml := de32 b0 b1 b2 b3).
  destruct (5 <? bz o); [auto|].
  destruct (limit (bz o) <? ml); [auto|].
  destruct (ml <? 5); [auto|].
  destruct (zlen _ <? ml); discriminate.
Qed.

(* the verdict on a complete header depends on those five bytes only *)
Lemma next_bad_header b0 b1 b2 b3 o tl c :
  next [b0;b1;b2;b3;o] = Bad c <-> next (b0::b1::b2::b3::o::tl) = Bad c.
Proof.
  cbn [Wire.next]. set (ml := de32 b0 b1 b2 b3).
  destruct (5 <? bz o); [tauto|].
  destruct (limit (bz o) <? ml); [tauto|].
  destruct (ml <? 5); [tauto|].
  destruct (zlen [b0;b1;b2;b3;o] <? ml); destruct (zlen (b0::b1::b2::b3::o::tl) <? ml); split; discriminate.
Qed.

(* which headers are rejected, exactly *)
Lemma next_header_verdict b0 b1 b2 b3 o tl :
  let ml := de32 b0 b1 b2 b3 in let op := bz o in
  (exists c, next (b0::b1::b2::b3::o::tl) = Bad c) <-> (5 < op \/ limit op < ml \/ ml < 5).
Proof.
  cbn [Wire.next]. cbv zeta. set (ml := de32 b0 b1 b2 b3).
  destruct (5 <? bz o) eqn:E1.
  { split; [intros _; left; lia | intros _; eexists; reflexivity]. }
  destruct (limit (bz o) <? ml) eqn:E2.
  { split; [intros _; right; left; lia | intros _; eexists; reflexivity]. }
  destruct (ml <? 5) eqn:E3.
  { split; [intros _; right; right; lia | intros _; eexists; reflexivity]. }
  split.
  - intros [c H]. destruct (zlen _ <? ml); discriminate.
  - intros H. lia.
Qed.

Lemma ready_shrinks buf op body rest :
  next buf = Ready op body rest -> (length rest + 5 <= length buf)%nat.
Proof.
  destruct buf as [|b0 [|b1 [|b2 [|b3 [|o tl]]]]]; try discriminate.
  cbn [Wire.next]. set (ml := de32 b0 b1 b2 b3).
  destruct (5 <? bz o); try discriminate.
  destruct (limit (bz o) <? ml); try discriminate.
  destruct (ml <? 5) eqn:E3; try discriminate.
  destruct (zlen _ <? ml); try discriminate.
  intros H; inversion H; subst. rewrite skipn_length. cbn [length]. lia.
Qed.


(* a Ready verdict splits the buffer exactly: header, body, rest; all bounds hold *)
Lemma next_ready_inv buf op body rest :
  next buf = Ready op body rest ->
  buf = hdr op body ++ rest /\ 0 <= op <= 5 /\ 5 <= 5 + zlen body <= limit op.
Proof.
  destruct buf as [|b0 [|b1 [|b2 [|b3 [|o tl]]]]]; try discriminate.
  cbn [Wire.next]. set (ml := de32 b0 b1 b2 b3).
  destruct (5 <? bz o) eqn:E1; try discriminate.
  destruct (limit (bz o) <? ml) eqn:E2; try discriminate.
  destruct (ml <? 5) eqn:E3; try discriminate.
  destruct (zlen _ <? ml) eqn:E4; try discriminate.
  intros H; inversion H; subst; clear H.
  assert (L: (Z.to_nat (ml - 5) <= length tl)%nat).
  { unfold zlen in E4. cbn [length] in E4. lia. }
  assert (Lb : zlen (firstn (Z.to_nat (ml - 5)) tl) = ml - 5).
  { unfold zlen. rewrite firstn_length. lia. }
  pose proof (bz_range o).
  split; [|split; [lia|rewrite Lb; lia]].
  unfold hdr. rewrite Lb. replace (5 + (ml - 5)) with ml by lia.
  unfold ml at 1. rewrite be32_de32 by (fold ml; lia).
  rewrite zb_bz. cbn [app]. do 5 f_equal.
  symmetry. apply firstn_skipn.
Qed.

Lemma next_bad_code buf c : next buf = Bad c -> c = 1 \/ c = 2 \/ c = 3.
Proof.
  destruct buf as [|b0 [|b1 [|b2 [|b3 [|o tl]]]]]; try discriminate.
  cbn [Wire.next].
  destruct (5 <? bz o); [intros H; inversion H; auto|].
  destruct (limit (bz o) <? _); [intros H; inversion H; auto|].
  destruct (_ <? 5); [intros H; inversion H; auto|].
  destruct (zlen _ <? _); discriminate.
Qed.

(* ---- draining ------------------------------------------------------------------------- *)
Lemma drain_fuel f1 f2 buf :
  (length buf < f1)%nat -> (length buf < f2)%nat -> drain f1 buf = drain f2 buf.
Proof.
  revert f2 buf; induction f1 as [|f1 IH]; intros f2 buf H1 H2; [lia|].
  destruct f2 as [|f2]; [lia|]. cbn [Wire.drain].
  destruct (next buf) eqn:E; try reflexivity.
  apply ready_shrinks in E. rewrite (IH f2 rest) by lia. reflexivity.
Qed.

(* termination: with enough fuel the out-of-fuel marker never appears *)
Lemma drain_total f buf fs r e :
  (length buf < f)%nat -> drain f buf = (fs, r, e) -> e <> Some (-1).
Proof.
  revert buf fs r e; induction f as [|f IH]; intros buf fs r e Hf; [lia|].
  cbn [Wire.drain]. destruct (next buf) eqn:E.
  - intros H; inversion H; subst. discriminate.
  - intros H; inversion H; subst. apply next_bad_code in E. intros K; inversion K; lia.
  - destruct (drain f rest) as [[fs0 r0] e0] eqn:D. intros H; inversion H; subst.
    apply ready_shrinks in E. eapply IH; [|exact D]. lia.
Qed.

(* what was yielded, re-encoded, followed by the residue, is the input: nothing lost or invented,
   and every yielded frame has a defined opcode and a length within [5, limit] *)
Definition frame_ok (f : Z * bytes) : Prop := 0 <= fst f <= 5 /\ 5 <= 5 + zlen (snd f) <= limit (fst f).

Lemma drain_decomp f buf fs r e :
  drain f buf = (fs, r, e) -> buf = concat (map enc fs) ++ r /\ Forall frame_ok fs.
Proof.
  revert buf fs r e; induction f as [|f IH]; intros buf fs r e.
  - cbn. intros H; inversion H; subst. split; [reflexivity|constructor].
  - cbn [Wire.drain]. destruct (next buf) eqn:E.
    + intros H; inversion H; subst. split; [reflexivity|constructor].
    + intros H; inversion H; subst. split; [reflexivity|constructor].
    + destruct (drain f rest) as [[fs0 r0] e0] eqn:D. intros H; inversion H; subst; clear H.
      destruct (IH _ _ _ _ D) as [Hr Hf]. apply next_ready_inv in E. destruct E as (Hb & Ho & Hl).
      split.
      * cbn [map concat]. unfold enc at 1. cbn [fst snd]. rewrite <- app_assoc, <- Hr. exact Hb.
      * constructor; [split; assumption|exact Hf].
Qed.

(* a clean drain leaves less than one maximal frame behind *)
Lemma drain_residue f buf fs r :
  drain f buf = (fs, r, None) -> next r = NeedMore.
Proof.
  revert buf fs r; induction f as [|f IH]; intros buf fs r; [discriminate|].
  cbn [Wire.drain]. destruct (next buf) eqn:E.
  - intros H; inversion H; subst. exact E.
  - discriminate.
  - destruct (drain f rest) as [[fs0 r0] e0] eqn:D. intros H; inversion H; subst. eapply IH; exact D.
Qed.

Lemma needmore_bounded r maxl :
  (forall op, 0 <= op <= 5 -> limit op <= maxl) -> 5 <= maxl -> next r = NeedMore -> zlen r < maxl.
Proof.
  intros Hm H5. destruct r as [|b0 [|b1 [|b2 [|b3 [|o tl]]]]]; try (intros _; unfold zlen; cbn [length]; lia).
  cbn [Wire.next]. set (ml := de32 b0 b1 b2 b3).
  destruct (5 <? bz o) eqn:E1; try discriminate.
  destruct (limit (bz o) <? ml) eqn:E2; try discriminate.
  destruct (ml <? 5) eqn:E3; try discriminate.
  destruct (zlen _ <? ml) eqn:E4; try discriminate.
  intros _. pose proof (bz_range o). specialize (Hm (bz o) ltac:(lia)). lia.
Qed.

(* feeding more input after a clean drain = draining the concatenation *)
Lemma drain_app f buf x fs r : (length buf < f)%nat ->
  drain f buf = (fs, r, None) ->
  parse (buf ++ x) = let '(fs', r', e') := parse (r ++ x) in (fs ++ fs', r', e').
Proof.
  revert buf fs r; induction f as [|f IH]; intros buf fs r Hf; [lia|].
  cbn [Wire.drain]. destruct (next buf) eqn:E.
  - intros H; inversion H; subst. cbn [app]. destruct (parse (r ++ x)) as [[a b] c]. reflexivity.
  - discriminate.
  - destruct (drain f rest) as [[fs0 r0] e0] eqn:D. intros H; inversion H; subst; clear H.
    pose proof (ready_shrinks _ _ _ _ E) as Hs.
    specialize (IH rest fs0 r ltac:(lia) D).
    unfold Wire.parse at 1. cbn [Wire.drain]. rewrite (next_ready_app _ x _ _ _ E).
    rewrite (drain_fuel _ (S (length (rest ++ x))) (rest ++ x)).
    + fold (parse (rest ++ x)). rewrite IH. destruct (parse (r ++ x)) as [[a b] c]. reflexivity.
    + rewrite !app_length in *. lia.
    + lia.
Qed.

(* after an error, the error persists and nothing more is yielded *)
Lemma drain_app_bad f buf x fs r c : (length buf < f)%nat -> c <> -1 ->
  drain f buf = (fs, r, Some c) -> parse (buf ++ x) = (fs, r ++ x, Some c).
Proof.
  revert buf fs r; induction f as [|f IH]; intros buf fs r Hf Hc; [lia|].
  cbn [Wire.drain]. destruct (next buf) eqn:E.
  - discriminate.
  - intros H; inversion H; subst. unfold Wire.parse. cbn [Wire.drain].
    rewrite (next_bad_app _ x _ E). reflexivity.
  - destruct (drain f rest) as [[fs0 r0] e0] eqn:D. intros H; inversion H; subst; clear H.
    pose proof (ready_shrinks _ _ _ _ E) as Hs.
    specialize (IH rest fs0 r ltac:(lia) Hc D).
    unfold Wire.parse at 1. cbn [Wire.drain]. rewrite (next_ready_app _ x _ _ _ E).
    rewrite (drain_fuel _ (S (length (rest ++ x))) (rest ++ x)).
    + fold (parse (rest ++ x)). rewrite IH. reflexivity.
    + rewrite !app_length in *. lia.
    + lia.
Qed.

Lemma parse_total buf fs r e : parse buf = (fs, r, e) -> e <> Some (-1).
Proof. unfold Wire.parse. apply drain_total. lia. Qed.

(* ---- chunk independence (C06) ---------------------------------------------------------- *)
(* an erroring drain stops at a buffer whose head is the bad header *)
Lemma drain_bad_residue f buf fs r c :
  drain f buf = (fs, r, Some c) -> c <> -1 -> next r = Bad c.
Proof.
  revert buf fs r; induction f as [|f IH]; intros buf fs r.
  - cbn. intros H; inversion H; subst. congruence.
  - cbn [Wire.drain]. destruct (next buf) eqn:E; try discriminate.
    + intros H; inversion H; subst. intros _. exact E.
    + destruct (drain f rest) as [[fs1 r1] e1] eqn:D. intros H; inversion H; subst. eapply IH. exact D.
Qed.

(* one feed keeps "observable state = parse of everything fed so far" *)
Lemma ufeed_step pre ch : ufeed (parse pre) ch = parse (pre ++ ch).
Proof.
  destruct (parse pre) as [[fs b] e] eqn:Hu. unfold Wire.ufeed, Wire.feed.
  destruct e as [c|].
  - pose proof (parse_total _ _ _ _ Hu) as Hc.
    assert (Hc' : c <> -1) by congruence.
    unfold Wire.parse in Hu.
    rewrite (drain_app_bad (S (length pre)) pre ch fs b c ltac:(lia) Hc' Hu).
    pose proof (drain_bad_residue _ _ _ _ _ Hu Hc') as Hb.
    unfold Wire.parse. cbn [Wire.drain]. rewrite (next_bad_app _ ch _ Hb).
    rewrite app_nil_r. reflexivity.
  - unfold Wire.parse in Hu.
    rewrite (drain_app (S (length pre)) pre ch fs b ltac:(lia) Hu).
    destruct (parse (b ++ ch)) as [[a b'] c']. reflexivity.
Qed.

Lemma feed_all_parse_gen chunks : forall pre,
  fold_left ufeed chunks (parse pre) = parse (pre ++ concat chunks).
Proof.
  induction chunks as [|ch chunks IH]; intros pre.
  - cbn. rewrite app_nil_r. reflexivity.
  - cbn [fold_left concat]. rewrite ufeed_step, IH, app_assoc. reflexivity.
Qed.

Theorem feed_all_parse chunks : feed_all chunks = parse (concat chunks).
Proof.
  unfold Wire.feed_all. change ustate0 with (parse []).
  rewrite feed_all_parse_gen. reflexivity.
Qed.

(* ---- encoding then decoding ---------------------------------------------------------------- *)

Lemma next_hdr op body rest :
  0 <= op <= 5 -> 5 + zlen body <= limit op -> 5 + zlen body < 2147483648 ->
  next (hdr op body ++ rest) = Ready op body rest.
Proof.
  intros Ho Hl Hb. unfold hdr, be32. cbn [app Wire.next].
  pose proof (zlen_nonneg body) as Hn.
  rewrite de32_be32 by lia. rewrite bz_zb by lia.
  destruct (5 <? op) eqn:E1; [lia|].
  destruct (limit op <? 5 + zlen body) eqn:E2; [lia|].
  destruct (5 + zlen body <? 5) eqn:E3; [lia|].
  match goal with |- context [zlen ?l <? _] => destruct (zlen l <? 5 + zlen body) eqn:E4 end.
  { unfold zlen in E4. cbn [length] in E4. rewrite app_length in E4. unfold zlen in *. lia. }
  replace (Z.to_nat (5 + zlen body - 5)) with (length body) by (unfold zlen; lia).
  rewrite firstn_app_exact, skipn_app_exact. reflexivity.
Qed.

(* a strict prefix of an encoded well-formed frame is "wait for more" *)
Lemma next_prefix_needmore op body p :
  0 <= op <= 5 -> 5 + zlen body <= limit op -> 5 + zlen body < 2147483648 ->
  (exists s, s <> [] /\ p ++ s = hdr op body) -> next p = NeedMore.
Proof.
  intros Ho Hl Hb (s & Hs & Hp).
  destruct p as [|b0 [|b1 [|b2 [|b3 [|o tl]]]]]; try reflexivity.
  unfold hdr, be32 in Hp. cbn [app] in Hp.
  injection Hp as H0 H1 H2 H3 H4 H5.
  cbn [Wire.next]. pose proof (zlen_nonneg body) as Hn.
  rewrite H0, H1, H2, H3, H4.
  rewrite de32_be32 by lia. rewrite bz_zb by lia.
  destruct (5 <? op) eqn:E1; [lia|].
  destruct (limit op <? 5 + zlen body) eqn:E2; [lia|].
  destruct (5 + zlen body <? 5) eqn:E3; [lia|].
  match goal with |- context [zlen ?l <? _] => destruct (zlen l <? 5 + zlen body) eqn:E4 end; [reflexivity|].
  exfalso. rewrite <- H5 in E4.
  unfold zlen in E4. cbn [length] in E4. rewrite app_length in E4.
  destruct s; [congruence|]. cbn [length] in E4. lia.
Qed.

Lemma drain_frames fs p : Forall wf_frame fs -> next p = NeedMore ->
  forall n, (length (concat (map enc fs) ++ p) < n)%nat ->
  drain n (concat (map enc fs) ++ p) = (fs, p, None).
Proof.
  intros Hf Hp. induction Hf as [|[op body] fs [Ho [Hl Hb]] Hf IH]; intros n Hn.
  - cbn [map concat app] in *. destruct n; [lia|]. cbn [Wire.drain]. rewrite Hp. reflexivity.
  - cbn [map concat] in *. unfold enc at 1 in Hn. unfold enc at 1. cbn [fst snd] in *.
    rewrite <- app_assoc in *. destruct n; [lia|]. cbn [Wire.drain].
    rewrite (next_hdr op body _ Ho Hl Hb). rewrite IH; [reflexivity|].
    rewrite app_length in Hn. pose proof (hdr_length op body) as HL. unfold zlen in HL. lia.
Qed.

(* a sequence of well-formed frames followed by an incomplete tail decodes to exactly that sequence *)
Theorem parse_frames fs p :
  Forall wf_frame fs -> next p = NeedMore ->
  parse (concat (map enc fs) ++ p) = (fs, p, None).
Proof. intros Hf Hp. unfold Wire.parse. apply drain_frames; [assumption|assumption|lia]. Qed.


End Facts.
