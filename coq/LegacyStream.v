(* LegacyStream.v — C12 for the blocking Client over a whole connection: in every reachable state the callbacks made
   on the current connection are exactly those of a prefix F of the frames decoded from ALL bytes received on that
   connection (after at most one handshake frame F0), in order, each once; what is not yet handed over is still in
   the buffer.  [lrx] is the ghost field of LegacyClient.v that accumulates the bytes of the current connection. *)
From Coq Require Import ZArith List Bool Arith Lia.
From Coq Require Import Strings.Byte.
From HP Require Import Bytes Utf8 Sha1 Wire WireFacts Params ParamsOK WireStream LegacyClient LegacyFacts.
Import ListNotations.

Arguments next : simpl never.
Arguments readinfo : simpl never.
Arguments readpublish : simpl never.
Arguments readerror : simpl never.
Arguments Z.eqb : simpl never.

(* ---- consuming well-formed frames from the front of a buffer ---- *)
Lemma parse_unfold buf op body rest : next limitP buf = Ready op body rest ->
  parse limitP buf = let '(fs, r, e) := parse limitP rest in ((op, body) :: fs, r, e).
Proof.
  intros E. unfold parse at 1. cbn [drain]. rewrite E.
  pose proof (ready_shrinks _ _ _ _ _ E) as Hs.
  rewrite (drain_fuel limitP (length buf) (S (length rest)) rest) by lia. reflexivity.
Qed.

Lemma parse_consumed fs : Forall (frame_ok limitP) fs -> forall b,
  parse limitP (concat (map enc fs) ++ b) = let '(fs', r, e) := parse limitP b in (fs ++ fs', r, e).
Proof.
  induction 1 as [|[op body] fs Hf Hfs IH]; intros b.
  - cbn [map concat app]. destruct (parse limitP b) as [[a c] d]. reflexivity.
  - cbn [map concat]. rewrite <- app_assoc. unfold enc at 1. cbn [fst snd].
    destruct (wf_frame_of_ok _ Hf) as (Ho & Hl & Hb). cbn [fst snd] in *.
    rewrite (parse_unfold _ op body (concat (map enc fs) ++ b)) by (apply next_hdr; assumption).
    rewrite IH. destruct (parse limitP b) as [[a c] d]. reflexivity.
Qed.

(* ---- callbacks ---- *)
Lemma cbs_app a : forall b, snd (cbs a) = false -> cbs (a ++ b) = (fst (cbs a) ++ fst (cbs b), snd (cbs b)).
Proof.
  induction a as [|[op body] a IH]; intros b H.
  - cbn. destruct (cbs b); reflexivity.
  - cbn [app cbs] in *. destruct (Z.eqb op 3).
    + destruct (readpublish body) as [[[i c] d]|]; [|discriminate].
      destruct (cbs a) as [l x] eqn:Ea. cbn [fst snd] in *. rewrite (IH b H). reflexivity.
    + destruct (Z.eqb op 0); [|apply IH; exact H].
      destruct (readerror body); [|discriminate].
      destruct (cbs a) as [l x] eqn:Ea. cbn [fst snd] in *. rewrite (IH b H). reflexivity.
Qed.

(* callbacks made since the current connection was established (newest first) *)
Fixpoint conn_cbs (tr : list lev) : list lev :=
  match tr with
  | [] => []
  | LConnected _ :: _ => []
  | e :: t => if is_callback e then e :: conn_cbs t else conn_cbs t
  end.
Lemma conn_cbs_app l tr : forallb is_callback l = true -> conn_cbs (l ++ tr) = l ++ conn_cbs tr.
Proof.
  induction l as [|e l IH]; intros H; [reflexivity|]. cbn [forallb] in H. apply andb_true_iff in H. destruct H as [He Hl].
  cbn [app]. destruct e; try discriminate; cbn; rewrite IH by exact Hl; reflexivity.
Qed.
Lemma conn_cbs_skip e tr : is_callback e = false -> (forall k, e <> LConnected k) -> conn_cbs (e :: tr) = conn_cbs tr.
Proof. intros H Hk. destruct e; try discriminate; try reflexivity. exfalso. apply (Hk k). reflexivity. Qed.

Definition Ppc (s : lstate) (F0 F : list (Z * bytes)) : Prop :=
  match lpcs s with
  | PAuth => F0 = [] /\ F = []
  | PAfterInner | PSubscribe _ | PRecv => lconnected s = true -> F0 <> []
  | _ => True
  end.
Definition Gx (s : lstate) : Prop :=
  exists F0 F, (length F0 <= 1)%nat /\ Forall (frame_ok limitP) (F0 ++ F) /\
    lrx s = concat (map enc (F0 ++ F)) ++ lbuf s /\ snd (cbs F) = false /\
    conn_cbs (ltrace s) = rev (fst (cbs F)) /\ Ppc s F0 F.
Definition G (s : lstate) : Prop := (lpcs s = PStop /\ In LCrash (ltrace s)) \/ Gx s.

(* a state change that touches neither the bytes nor the callbacks nor the connection *)
Lemma Gx_keep s s' evs :
  lrx s' = lrx s -> lbuf s' = lbuf s -> ltrace s' = evs ++ ltrace s ->
  Forall (fun e => is_callback e = false /\ forall k, e <> LConnected k) evs ->
  (forall F0 F, Ppc s F0 F -> Ppc s' F0 F) -> Gx s -> Gx s'.
Proof.
  intros Hr Hb Ht He Hp (F0 & F & H1 & H2 & H3 & H4 & H5 & H6).
  exists F0, F. repeat split; auto.
  - rewrite Hr, Hb. exact H3.
  - rewrite Ht. clear Ht. induction He as [|e evs [Hc Hk] _ IH]; [exact H5|]. cbn [app]. rewrite conn_cbs_skip; auto.
Qed.

Ltac quiet_evs := repeat (constructor; [split; [reflexivity|intros ? ?; discriminate]|]); try constructor.

Theorem step_G s : G s -> G (lstep s).
Proof.
  intros [[Hp Hc]|Hg].
  { left. unfold lstep. rewrite Hp. split; assumption. }
  unfold lstep. destruct (lpcs s) eqn:Ep.
  - (* PTry *)
    destruct (lconn s) as [|ok rest] eqn:Ec.
    + right. eapply (Gx_keep s _ [LScriptEnd]); [reflexivity|reflexivity|reflexivity|quiet_evs| |exact Hg]. intros; exact I.
    + destruct ok.
      * right. exists [], []. cbn. repeat split; auto.
      * right. eapply (Gx_keep s _ [LSleep; LAttempt]); [reflexivity|reflexivity|reflexivity|quiet_evs| |exact Hg]. intros; exact I.
  - (* PAuth *)
    destruct Hg as (F0 & F & H1 & H2 & H3 & H4 & H5 & H6). unfold Ppc in H6. rewrite Ep in H6. destruct H6 as [-> ->].
    cbn [app map concat] in H3.
    assert (Hg : Gx s).
    { exists [], []. unfold Ppc. rewrite Ep. repeat split; auto. }
    destruct (lrecv s) as [|r rest] eqn:Er.
    { right. eapply (Gx_keep s _ [LScriptEnd]); [reflexivity|reflexivity|reflexivity|quiet_evs| |exact Hg]. intros; exact I. }
    destruct r as [d| | |];
      try (right; eapply (Gx_keep s _ [LSleep]); [reflexivity|reflexivity|reflexivity|quiet_evs|intros; exact I|exact Hg]).
    cbn [feedl lbuf].
    match goal with |- context [next limitP ?b] => destruct (next limitP b) as [|c|op body rest'] eqn:En end.
    + right. exists [], []. cbn. rewrite H3. repeat split; auto.
    + right. exists [], []. cbn. rewrite H3. repeat split; auto.
    + destruct (next_ready_inv limitP _ _ _ _ En) as (Hb & Ho & Hl).
      assert (Hfo : frame_ok limitP (op, body)) by (split; assumption).
      assert (Base : forall evs s', lrx s' = lrx s ++ d -> lbuf s' = rest' -> ltrace s' = evs ++ ltrace s ->
                Forall (fun e => is_callback e = false /\ forall k, e <> LConnected k) evs ->
                lpcs s' <> PAuth -> Gx s').
      { intros evs s' Hr' Hb' Ht' He' Hp'. exists [(op, body)], []. cbn [app map concat length].
        repeat split; auto.
        - rewrite Hr', Hb', H3. unfold enc. cbn [fst snd]. rewrite app_nil_r. exact Hb.
        - rewrite Ht'. clear Ht'. induction He' as [|e evs [Hc Hk] _ IH]; [exact H5|]. cbn [app]. rewrite conn_cbs_skip; auto.
        - unfold Ppc. destruct (lpcs s'); try exact I; try (intros _; discriminate). congruence. }
      destruct (Z.eqb op 1).
      * destruct (readinfo body) as [[nm rand]|].
        -- unfold pop_send. cbn [ev setbufl feedl lsend].
           destruct (lsend s) as [|b t] eqn:Es.
           ++ right. apply (Base [LSentAuth (lk s) rand; LInfo (lk s) rand]); try reflexivity; [quiet_evs|cbn; discriminate].
           ++ destruct b.
              ** right. apply (Base [LSentAuth (lk s) rand; LInfo (lk s) rand]); try reflexivity; [quiet_evs|cbn; discriminate].
              ** right. apply (Base [LSleep; LSendFailed (lk s); LInfo (lk s) rand]); try reflexivity; [quiet_evs|cbn; discriminate].
        -- left. cbn. auto.
      * right. apply (Base [LSleep]); try reflexivity; [quiet_evs|cbn; discriminate].
  - (* PSubscribe *)
    assert (Hp : forall s', lpcs s' = PRecv \/ (exists t, lpcs s' = PSubscribe t) -> lconnected s' = lconnected s \/ lconnected s' = false ->
                 forall F0 F, Ppc s F0 F -> Ppc s' F0 F).
    { intros s' Hpc Hcn F0 F. unfold Ppc. rewrite Ep.
      destruct Hpc as [->|[t ->]]; intros H Hc'; apply H; destruct Hcn as [E|E]; congruence. }
    destruct todo as [|c t].
    + right. eapply (Gx_keep s _ []); [reflexivity|reflexivity|reflexivity|quiet_evs| |exact Hg]. apply Hp; [left; reflexivity|left; reflexivity].
    + unfold pop_send. destruct (lsend s) as [|b t'] eqn:Es.
      * right. eapply (Gx_keep s _ [LSentSub (lk s) c]); [reflexivity|reflexivity|reflexivity|quiet_evs| |exact Hg].
        apply Hp; [right; eexists; reflexivity|left; reflexivity].
      * destruct b.
        -- right. eapply (Gx_keep s _ [LSentSub (lk s) c]); [reflexivity|reflexivity|reflexivity|quiet_evs| |exact Hg].
           apply Hp; [right; eexists; reflexivity|left; reflexivity].
        -- right. eapply (Gx_keep s _ [LSendFailed (lk s)]); [reflexivity|reflexivity|reflexivity|quiet_evs| |exact Hg].
           apply Hp; [left; reflexivity|right; reflexivity].
  - (* PRecv *)
    destruct (lconnected s) eqn:Ecn; cbn [negb].
    2:{ right. eapply (Gx_keep s _ []); [reflexivity|reflexivity|reflexivity|quiet_evs| |exact Hg].
        intros F0 F. unfold Ppc. rewrite Ep. cbn. rewrite Ecn. intros _ H; discriminate. }
    destruct (lrecv s) as [|r rest] eqn:Er.
    { right. eapply (Gx_keep s _ [LScriptEnd]); [reflexivity|reflexivity|reflexivity|quiet_evs| |exact Hg]. intros; exact I. }
    destruct r as [d| | |].
    + destruct Hg as (F0 & F & H1 & H2 & H3 & H4 & H5 & H6). unfold Ppc in H6. rewrite Ep in H6. specialize (H6 Ecn).
      match goal with |- context [run_frames ?f ?x] =>
        pose proof (run_frames_spec f x) as K; destruct (run_frames f x) as [s3 how] eqn:Erf end.
      cbn [feedl lbuf] in K.
      destruct (drain limitP (S (length (lbuf s ++ d))) (lbuf s ++ d)) as [[fs r] e] eqn:D.
      specialize (K ltac:(lia) fs r e eq_refl). cbn in K. destruct K as (K1 & K2 & K3 & K4). subst how.
      destruct (drain_decomp limitP _ _ _ _ _ D) as [Hdec Hfok].
      unfold how_of. destruct (snd (cbs fs)) eqn:Ex.
      { left. cbn. auto. }
      specialize (K4 eq_refl).
      assert (Core : forall evs s', lrx s' = lrx s3 -> lbuf s' = lbuf s3 -> ltrace s' = evs ++ ltrace s3 ->
                Forall (fun e => is_callback e = false /\ forall k, e <> LConnected k) evs ->
                (lpcs s' = PRecv \/ lpcs s' = PAfterInner) -> Gx s').
      { intros evs s' Hr' Hb' Ht' He' Hp'. exists F0, (F ++ fs). repeat split.
        - exact H1.
        - rewrite app_assoc. apply Forall_app. split; assumption.
        - rewrite Hr', Hb', K2, K4, H3. rewrite <- (app_assoc _ (lbuf s) d), Hdec.
          rewrite (app_assoc F0 F fs), (map_app enc (F0 ++ F) fs), concat_app, <- app_assoc. reflexivity.
        - rewrite (cbs_app F fs H4). exact Ex.
        - rewrite Ht', K1. clear Ht'. induction He' as [|x evs [Hc Hk] _ IH].
          + cbn [app]. rewrite conn_cbs_app by (rewrite forallb_forall; intros y Hy; apply in_rev in Hy;
              pose proof (cbs_callbacks fs) as Hcb; rewrite forallb_forall in Hcb; apply Hcb; exact Hy).
            rewrite H5, (cbs_app F fs H4). cbn [fst]. rewrite rev_app_distr. reflexivity.
          + cbn [app]. rewrite conn_cbs_skip; auto.
        - unfold Ppc. destruct Hp' as [-> | ->]; intros _; exact H6. }
      destruct e as [c|].
      * right. apply (Core [LDisconnected (lk s3)]); try reflexivity; [quiet_evs|right; reflexivity].
      * destruct (lstopped s3).
        -- right. apply (Core []); try reflexivity; [constructor|right; reflexivity].
        -- right. apply (Core []); try reflexivity; [constructor|].
           left. pose proof (run_frames_keeps 0 s (lk s)) as _.
           assert (Hpc : forall n x, lpcs (fst (run_frames n x)) = lpcs x).
           { clear. induction n as [|n IH]; intros x; cbn [run_frames]; [reflexivity|].
             destruct (next limitP (lbuf x)); try reflexivity.
             destruct (Z.eqb op 3); [destruct (readpublish body) as [[[i c] dd]|]; [rewrite IH|]; reflexivity|].
             destruct (Z.eqb op 0); [destruct (readerror body); [rewrite IH|]; reflexivity|]. rewrite IH; reflexivity. }
           match type of Erf with run_frames ?f ?x = _ => specialize (Hpc f x); rewrite Erf in Hpc end.
           cbn in Hpc. rewrite Hpc. reflexivity.
    + destruct (lstopped s).
      * right. eapply (Gx_keep s _ []); [reflexivity|reflexivity|reflexivity|quiet_evs| |exact Hg].
        intros F0 F. unfold Ppc. rewrite Ep. cbn. auto.
      * right. eapply (Gx_keep s _ []); [reflexivity|reflexivity|reflexivity|quiet_evs| |exact Hg].
        intros F0 F. unfold Ppc. rewrite Ep. cbn. rewrite ?Ep. auto.
    + right. eapply (Gx_keep s _ [LDisconnected (lk s)]); [reflexivity|reflexivity|reflexivity|quiet_evs| |exact Hg].
      intros F0 F. unfold Ppc. cbn. intros _ H; discriminate.
    + right. eapply (Gx_keep s _ [LDisconnected (lk s)]); [reflexivity|reflexivity|reflexivity|quiet_evs| |exact Hg].
      intros F0 F. unfold Ppc. cbn. intros _ H; discriminate.
  - (* PAfterInner *)
    destruct (lstopped s).
    + right. eapply (Gx_keep s _ [LReturn]); [reflexivity|reflexivity|reflexivity|quiet_evs| |exact Hg]. intros; exact I.
    + destruct (lconnected s) eqn:Ecn.
      * right. eapply (Gx_keep s _ []); [reflexivity|reflexivity|reflexivity|quiet_evs| |exact Hg].
        intros F0 F. unfold Ppc. rewrite Ep. cbn. auto.
      * right. eapply (Gx_keep s _ []); [reflexivity|reflexivity|reflexivity|quiet_evs| |exact Hg]. intros; exact I.
  - right. exact Hg.
Qed.

Lemma run_G fuel : forall s, G s -> G (lrun fuel s).
Proof.
  induction fuel as [|f IH]; intros s H; [exact H|].
  destruct (lpcs s) eqn:E; try (rewrite lrun_S by congruence; apply IH, step_G, H).
  rewrite stopped_is_final by exact E. exact H.
Qed.

(* C12 for Client.run, whole connections: unless an undecodable body made run() raise, the callbacks made on the
   current connection are those of F, and the bytes received on it decode to F0 ++ F ++ (what the buffer still
   holds), F0 being the handshake frame: every message once, in order, none invented, none skipped *)
Theorem legacy_stream conn recv send subs sa fuel :
  let s := lrun fuel (linit conn recv send subs sa) in
  In LCrash (ltrace s) \/
  exists F0 F, (length F0 <= 1)%nat /\ snd (cbs F) = false /\ conn_cbs (ltrace s) = rev (fst (cbs F)) /\
    parse limitP (lrx s) = let '(fs, r, e) := parse limitP (lbuf s) in (F0 ++ F ++ fs, r, e).
Proof.
  cbv zeta. destruct (run_G fuel (linit conn recv send subs sa)) as [H|(F0 & F & H1 & H2 & H3 & H4 & H5 & H6)].
  - right. exists [], []. cbn. repeat split; auto.
  - left; exact (proj2 H).
  - right. exists F0, F. repeat split; auto.
    rewrite H3, (parse_consumed _ H2). destruct (parse limitP (lbuf _)) as [[a b] c]. rewrite <- app_assoc. reflexivity.
Qed.
