(* BrokerInv.v — the invariant of the broker model: registry consistency (Inv), refinement of the
   abstract pub/sub machine (Ref) and the link between the state and the log of accepted actions (Link);
   each primitive preserves them. *)
From Coq Require Import ZArith List Bool Arith Lia.
From HP Require Import Bytes Sha1 Wire ParamsOK Broker BrokerSpec BrokerLemmas.
Import ListNotations.

Section Inv.
Variable okrow : ident -> row -> Prop.   (* i may authenticate with row r (for one fixed synchronous store: store i = LRow r) *)
Variable async_store : bool.

(* ---- what an accepted action needs in order to be legitimate ---------------------------------- *)
Definition act_ok (t : list action) (a : action) : Prop :=
  match a with
  | AConn q n => conn_nonce t q = None
  | AAuth q i r dg => exists n, conn_nonce t q = Some n /\ dg = sha1 (n ++ r_secret r) /\
                                (async_store = false -> okrow i r)
  | ASub q c => exists i r, last_auth t q = Some (i, r) /\ In c (r_sub r)
  | AUnsub q c => last_auth t q <> None
  | APub p i c d => exists r, last_auth t p = Some (i, r) /\ In c (r_pub r)
  | AClose _ | AGone _ => True
  end.
Fixpoint log_ok (l : list action) : Prop :=
  match l with [] => True | a :: t => act_ok t a /\ log_ok t end.

Record Inv (s : state) : Prop := {
  i_sub_act : forall c q, In q (subs s c) -> copen (conns s q) = true /\ In c (active (conns s q));
  i_act_sub : forall q c, In c (active (conns s q)) -> In q (subs s c);
  i_nodup_s : forall c, NoDup (subs s c);
  i_nodup_a : forall q, NoDup (active (conns s q));
  i_closed : forall q, copen (conns s q) = false -> active (conns s q) = [];
  i_lostc : forall q, lost (conns s q) = true -> closing (conns s q) = true;
  i_abortc : forall q, aborted (conns s q) = true -> closing (conns s q) = true;
  i_made : forall q, copen (conns s q) = true -> made (conns s q) = true }.

Record Ref (s : state) : Prop := {
  f_sub : forall q, active (conns s q) = sp_sub (spec (alog s)) q;
  f_cl : forall q, closing (conns s q) = sp_closed (spec (alog s)) q }.
Definition RefO (s : state) : Prop := forall q, pubs (out (conns s q)) = sp_out (spec (alog s)) q.

Definition ak_link (l : list action) (c : conn) (q : nat) : Prop :=
  match last_auth l q with
  | Some (i, r) => ak c = Some i /\ pubchans c = r_pub r /\ subchans c = r_sub r
  | None => ak c = None
  end.
Definition nonce_link (l : list action) (c : conn) (q : nat) : Prop :=
  match conn_nonce l q with
  | Some n => made c = true /\ nonce c = n
  | None => made c = false
  end.
Record Link (s : state) : Prop := {
  l_ak : forall q, ak_link (alog s) (conns s q) q;
  l_nonce : forall q, nonce_link (alog s) (conns s q) q;
  l_log : log_ok (alog s) }.

(* Good0: everything except "what was written = what the spec says" (which is suspended inside the
   fan-out loop of Server.publish and restored at its end) *)
Definition Good0 (s : state) : Prop := Inv s /\ Ref s /\ Link s.
Definition Good (s : state) : Prop := Good0 s /\ RefO s.

(* the part of a connection record the invariants read *)
Definition core (c : conn) :=
  (made c, copen c, lost c, aborted c, nonce c, ak c, pubchans c, subchans c, active c, closing c, pubs (out c)).

Lemma core_inv c c' : core c' = core c ->
  made c' = made c /\ copen c' = copen c /\ lost c' = lost c /\ aborted c' = aborted c /\ nonce c' = nonce c /\
  ak c' = ak c /\ pubchans c' = pubchans c /\ subchans c' = subchans c /\ active c' = active c /\
  closing c' = closing c /\ pubs (out c') = pubs (out c).
Proof. unfold core. intros H. injection H. intros. repeat split; assumption. Qed.

Definition core0 (c : conn) :=
  (made c, copen c, lost c, aborted c, nonce c, ak c, pubchans c, subchans c, active c, closing c).
Lemma core0_inv c c' : core0 c' = core0 c ->
  made c' = made c /\ copen c' = copen c /\ lost c' = lost c /\ aborted c' = aborted c /\ nonce c' = nonce c /\
  ak c' = ak c /\ pubchans c' = pubchans c /\ subchans c' = subchans c /\ active c' = active c /\
  closing c' = closing c /\ True.
Proof. unfold core0. intros H. injection H. intros. repeat split; assumption. Qed.
Lemma core_core0 c c' : core c' = core c -> core0 c' = core0 c.
Proof. intros H. apply core_inv in H. unfold core0. intuition congruence. Qed.

Lemma good0_inert s s' :
  Good0 s -> (forall q, core0 (conns s' q) = core0 (conns s q)) -> subs s' = subs s -> alog s' = alog s -> Good0 s'.
Proof.
  intros (I & R & L) Hc Hs Ha.
  assert (P := fun q => core0_inv _ _ (Hc q)).
  destruct I as [I1 I2 I3 I4 I5 I6 I7 I8]. destruct R as [R1 R2]. destruct L as [L1 L2 L3].
  split; [|split].
  - constructor; intros.
    + rewrite Hs in H. destruct (P q) as (_ & -> & _ & _ & _ & _ & _ & _ & -> & _). apply I1; assumption.
    + rewrite Hs. destruct (P q) as (_ & _ & _ & _ & _ & _ & _ & _ & E & _). rewrite E in H. apply I2; assumption.
    + rewrite Hs. apply I3.
    + destruct (P q) as (_ & _ & _ & _ & _ & _ & _ & _ & -> & _). apply I4.
    + destruct (P q) as (_ & E & _ & _ & _ & _ & _ & _ & -> & _). rewrite E in H. apply I5; assumption.
    + destruct (P q) as (_ & _ & E & _ & _ & _ & _ & _ & _ & -> & _). rewrite E in H. apply I6; assumption.
    + destruct (P q) as (_ & _ & _ & E & _ & _ & _ & _ & _ & -> & _). rewrite E in H. apply I7; assumption.
    + destruct (P q) as (-> & E & _). rewrite E in H. apply I8; assumption.
  - constructor; intros; rewrite Ha.
    + destruct (P q) as (_ & _ & _ & _ & _ & _ & _ & _ & -> & _). apply R1.
    + destruct (P q) as (_ & _ & _ & _ & _ & _ & _ & _ & _ & -> & _). apply R2.
  - constructor; intros; rewrite Ha.
    + specialize (L1 q). unfold ak_link in *. destruct (P q) as (_ & _ & _ & _ & _ & -> & -> & -> & _). exact L1.
    + specialize (L2 q). unfold nonce_link in *. destruct (P q) as (-> & _ & _ & _ & -> & _). exact L2.
    + exact L3.
Qed.

Lemma good_inert s s' :
  Good s -> (forall q, core (conns s' q) = core (conns s q)) -> subs s' = subs s -> alog s' = alog s -> Good s'.
Proof.
  intros (G0 & O) Hc Hs Ha. split; [eapply good0_inert; eauto; intros q; apply core_core0; apply Hc|].
  intros q. rewrite Ha. destruct (core_inv _ _ (Hc q)) as (_ & _ & _ & _ & _ & _ & _ & _ & _ & _ & ->). apply O.
Qed.

(* field-wise description of modc *)
Lemma conns_modc q f s q' : conns (modc q f s) q' = if Nat.eqb q' q then f (conns s q) else conns s q'.
Proof. reflexivity. Qed.

Lemma modc_inert_good q f s :
  Good s -> (forall c, core (f c) = core c) -> Good (modc q f s).
Proof.
  intros G Hf. apply (good_inert s); [exact G| | reflexivity | reflexivity].
  intros q'. rewrite conns_modc. destruct (Nat.eqb q' q) eqn:E; [|reflexivity].
  apply Nat.eqb_eq in E. subst. apply Hf.
Qed.

(* ---- transport primitives --------------------------------------------------------------------- *)
Definition not_pub (f : frame) : Prop := match f with FPub _ _ _ => False | _ => True end.

Lemma wr_good q f s : Good s -> not_pub f -> Good (wr q f s).
Proof.
  intros G Hf. unfold wr. destruct (lost (conns s q) || aborted (conns s q)); [exact G|].
  apply (good_inert s); [exact G| |reflexivity|reflexivity].
  intros q'. rewrite conns_modc. destruct (Nat.eqb q' q) eqn:E; [|reflexivity].
  apply Nat.eqb_eq in E. subst. unfold core. cbn.
  destruct f; cbn in *; try reflexivity. destruct Hf.
Qed.

Lemma pause_r_good q s : Good s -> Good (pause_r q s).
Proof.
  intros G. unfold pause_r. destruct (closing _ || rpaused _); [exact G|].
  apply modc_inert_good; [exact G|]. intros c. reflexivity.
Qed.
Lemma resume_r_good q s : Good s -> Good (resume_r q s).
Proof.
  intros G. unfold resume_r. destruct (closing _ || negb (rpaused _)); [exact G|].
  apply modc_inert_good; [exact G|]. intros c. reflexivity.
Qed.

Ltac eqb_cases :=
  repeat match goal with
  | |- context [Nat.eqb ?a ?b] => destruct (Nat.eqb_spec a b); subst
  | H : context [Nat.eqb ?a ?b] |- _ => destruct (Nat.eqb_spec a b); subst
  end.

Lemma cl_good0 q s : Good0 s -> Good0 (cl q s).
Proof.
  intros G. unfold cl. destruct (closing (conns s q)) eqn:Ec; [exact G|].
  destruct G as (I & R & L).
  destruct I as [I1 I2 I3 I4 I5 I6 I7 I8]. destruct R as [R1 R2]. destruct L as [L1 L2 L3].
  split; [|split].
  - constructor; cbn; intros; unfold upd in *; eqb_cases; cbn in *; auto.
  - constructor; cbn; intros; unfold upd; eqb_cases; cbn; auto.
  - constructor; cbn; intros.
    + specialize (L1 q0). unfold ak_link in *. cbn. unfold upd. eqb_cases; cbn; exact L1.
    + specialize (L2 q0). unfold nonce_link in *. cbn. unfold upd. eqb_cases; cbn; exact L2.
    + split; [exact I|exact L3].
Qed.
Lemma cl_good q s : Good s -> Good (cl q s).
Proof.
  intros (G0 & O). split; [apply cl_good0; exact G0|].
  unfold cl. destruct (closing (conns s q)) eqn:Ec; [exact O|].
  intros q'. cbn. unfold upd. eqb_cases; cbn; apply O.
Qed.

Lemma bad_good q s : Good s -> Good (bad q s).
Proof. intros G. unfold bad. apply cl_good. apply wr_good; [exact G|exact I]. Qed.

(* ---- Server.subscribe / unsubscribe -------------------------------------------------------------- *)
Lemma sub_raw_inv q c s : Inv s -> copen (conns s q) = true -> Inv (sub_raw q c s).
Proof.
  intros I Ho. unfold sub_raw. destruct (memc c (active (conns s q))) eqn:M; [exact I|].
  apply memc_false in M. destruct I as [I1 I2 I3 I4 I5 I6 I7 I8].
  assert (Nq: ~ In q (subs s c)) by (intro H; apply M; apply (I1 _ _ H)).
  constructor; cbn; unfold upd, updc.
  - intros c' q'. destruct (bytes_eqb_spec c' c) as [->|Nc]; destruct (Nat.eqb_spec q' q) as [->|Nq']; cbn; intros H.
    + auto.
    + destruct H as [E|H]; [congruence|apply (I1 _ _ H)].
    + destruct (I1 _ _ H); auto.
    + apply (I1 _ _ H).
  - intros q' c'. destruct (Nat.eqb_spec q' q) as [->|Nq']; destruct (bytes_eqb_spec c' c) as [->|Nc]; cbn; intros H; auto.
    destruct H as [E|H]; [congruence|auto].
  - intros c'. destruct (bytes_eqb_spec c' c) as [->|Nc]; [constructor; auto|apply I3].
  - intros q'. destruct (Nat.eqb_spec q' q) as [->|Nq']; cbn; [constructor; auto|apply I4].
  - intros q'. destruct (Nat.eqb_spec q' q) as [->|Nq']; cbn; intros H; [congruence|apply I5; exact H].
  - intros q'. destruct (Nat.eqb_spec q' q) as [->|Nq']; cbn; apply I6.
  - intros q'. destruct (Nat.eqb_spec q' q) as [->|Nq']; cbn; apply I7.
  - intros q'. destruct (Nat.eqb_spec q' q) as [->|Nq']; cbn; apply I8.
Qed.

Lemma unsub_raw_inv q c s : Inv s -> Inv (unsub_raw q c s).
Proof.
  intros I. unfold unsub_raw. destruct (memc c (active (conns s q))) eqn:M; [|exact I].
  destruct I as [I1 I2 I3 I4 I5 I6 I7 I8].
  pose proof (NoDup_rmn q (subs s c) (I3 c)) as [Ns1 Ns2].
  pose proof (NoDup_rmc c (active (conns s q)) (I4 q)) as [Na1 Na2].
  constructor; cbn; unfold upd, updc.
  - intros c' q'. destruct (bytes_eqb_spec c' c) as [->|Nc]; destruct (Nat.eqb_spec q' q) as [->|Nq]; cbn; intros H.
    + tauto.
    + apply In_rmn in H. apply (I1 _ _ H).
    + destruct (I1 _ _ H) as [A B]. split; [exact A|]. apply In_rmc_neq; auto.
    + apply (I1 _ _ H).
  - intros q' c'. destruct (Nat.eqb_spec q' q) as [->|Nq]; destruct (bytes_eqb_spec c' c) as [->|Nc]; cbn; intros H.
    + tauto.
    + apply In_rmc in H. auto.
    + apply In_rmn_neq; auto.
    + auto.
  - intros c'. destruct (bytes_eqb_spec c' c) as [->|Nc]; [exact Ns1|apply I3].
  - intros q'. destruct (Nat.eqb_spec q' q) as [->|Nq]; cbn; [exact Na1|apply I4].
  - intros q'. destruct (Nat.eqb_spec q' q) as [->|Nq]; cbn; intros H; [|apply I5; exact H].
    rewrite (I5 _ H). reflexivity.
  - intros q'. destruct (Nat.eqb_spec q' q) as [->|Nq']; cbn; apply I6.
  - intros q'. destruct (Nat.eqb_spec q' q) as [->|Nq']; cbn; apply I7.
  - intros q'. destruct (Nat.eqb_spec q' q) as [->|Nq']; cbn; apply I8.
Qed.

(* what sub_raw / unsub_raw leave alone: everything but the active set of q (and the registry, gauges) *)
Definition rest (c : conn) :=
  (made c, copen c, lost c, aborted c, nonce c, ak c, pubchans c, subchans c, closing c, out c).

Lemma sub_raw_frame q c s :
  alog (sub_raw q c s) = alog s /\
  (forall q', q' <> q -> conns (sub_raw q c s) q' = conns s q') /\
  active (conns (sub_raw q c s) q) = (if memc c (active (conns s q)) then active (conns s q) else c :: active (conns s q)) /\
  rest (conns (sub_raw q c s) q) = rest (conns s q).
Proof.
  unfold sub_raw. destruct (memc c (active (conns s q))) eqn:M; cbn.
  - repeat split; auto.
  - unfold upd. rewrite Nat.eqb_refl. cbn. repeat split; auto.
    intros q' N. destruct (Nat.eqb_spec q' q); [congruence|reflexivity].
Qed.

Lemma unsub_raw_frame q c s :
  alog (unsub_raw q c s) = alog s /\
  (forall q', q' <> q -> conns (unsub_raw q c s) q' = conns s q') /\
  active (conns (unsub_raw q c s) q) = rmc c (active (conns s q)) /\
  rest (conns (unsub_raw q c s) q) = rest (conns s q).
Proof.
  unfold unsub_raw. destruct (memc c (active (conns s q))) eqn:M; cbn.
  - unfold upd. rewrite Nat.eqb_refl. cbn. repeat split; auto.
    intros q' N. destruct (Nat.eqb_spec q' q); [congruence|reflexivity].
  - apply memc_false in M. rewrite (rmc_notin _ _ M). repeat split; auto.
Qed.

Lemma rest_inv c c' : rest c' = rest c ->
  made c' = made c /\ copen c' = copen c /\ lost c' = lost c /\ aborted c' = aborted c /\ nonce c' = nonce c /\
  ak c' = ak c /\ pubchans c' = pubchans c /\ subchans c' = subchans c /\ closing c' = closing c /\ out c' = out c.
Proof. unfold rest. intros H. injection H. intros. repeat split; assumption. Qed.

Lemma inv_logA a s : Inv s -> Inv (logA a s).
Proof. intros [I1 I2 I3 I4 I5 I6 I7 I8]. constructor; cbn; assumption. Qed.

(* actions that only change who holds which subscription *)
Definition subact (a : action) : Prop :=
  match a with ASub _ _ | AUnsub _ _ | AGone _ => True | _ => False end.
Definition lrest (c : conn) := (made c, nonce c, ak c, pubchans c, subchans c, closing c, out c).
Lemma rest_lrest c c' : rest c' = rest c -> lrest c' = lrest c.
Proof. intros H. apply rest_inv in H. unfold lrest. intuition congruence. Qed.

Lemma good0_step_sub s s' a :
  Good0 s -> Inv s' -> subact a -> alog s' = a :: alog s ->
  (forall q, lrest (conns s' q) = lrest (conns s q)) ->
  (forall q, active (conns s' q) = sp_sub (sstep (spec (alog s)) a) q) ->
  act_ok (alog s) a ->
  Good0 s' /\ (forall q, out (conns s' q) = out (conns s q) /\ sp_out (spec (alog s')) q = sp_out (spec (alog s)) q).
Proof.
  intros (I & R & L) I' Ha Hl Hr Hact Hok.
  destruct R as [R1 R2]. destruct L as [L1 L2 L3].
  assert (P : forall q, made (conns s' q) = made (conns s q) /\ nonce (conns s' q) = nonce (conns s q) /\
            ak (conns s' q) = ak (conns s q) /\ pubchans (conns s' q) = pubchans (conns s q) /\
            subchans (conns s' q) = subchans (conns s q) /\ closing (conns s' q) = closing (conns s q) /\
            out (conns s' q) = out (conns s q)).
  { intros q. specialize (Hr q). unfold lrest in Hr. injection Hr. intros. repeat split; assumption. }
  split; [split; [exact I'|split]|].
  - constructor; intros q; rewrite Hl; cbn [spec].
    + apply Hact.
    + destruct (P q) as (_ & _ & _ & _ & _ & -> & _). rewrite R2. destruct a; try destruct Ha; reflexivity.
  - constructor; try intros q; rewrite Hl.
    + specialize (L1 q). unfold ak_link in *. destruct (P q) as (_ & _ & -> & -> & -> & _).
      destruct a; try destruct Ha; exact L1.
    + specialize (L2 q). unfold nonce_link in *. destruct (P q) as (-> & -> & _).
      destruct a; try destruct Ha; exact L2.
    + split; [exact Hok|exact L3].
  - intros q. split; [apply P|]. rewrite Hl. cbn [spec]. destruct a; try destruct Ha; reflexivity.
Qed.

Lemma good_step_sub s s' a :
  Good s -> Inv s' -> subact a -> alog s' = a :: alog s ->
  (forall q, lrest (conns s' q) = lrest (conns s q)) ->
  (forall q, active (conns s' q) = sp_sub (sstep (spec (alog s)) a) q) ->
  act_ok (alog s) a -> Good s'.
Proof.
  intros (G0 & O) I' Ha Hl Hr Hact Hok.
  destruct (good0_step_sub s s' a G0 I' Ha Hl Hr Hact Hok) as (G0' & F).
  split; [exact G0'|]. intros q. destruct (F q) as (-> & ->). apply O.
Qed.

Lemma sub_good q c s :
  Good s -> copen (conns s q) = true ->
  (exists i r, last_auth (alog s) q = Some (i, r) /\ In c (r_sub r)) -> Good (sub q c s).
Proof.
  intros G Ho Hok. destruct (sub_raw_frame q c s) as (Fa & Fo & Fact & Fr).
  apply (good_step_sub s _ (ASub q c)); [exact G| |exact I| | | |exact Hok].
  - unfold sub. apply inv_logA. apply sub_raw_inv; [apply (proj1 G)|exact Ho].
  - unfold sub. cbn. rewrite Fa. reflexivity.
  - intros q'. unfold sub. cbn. destruct (Nat.eq_dec q' q) as [->|N].
    + apply rest_lrest. exact Fr.
    + rewrite Fo by exact N. reflexivity.
  - intros q'. unfold sub. cbn. destruct G as ((_ & [R1 _] & _) & _). unfold upd.
    destruct (Nat.eqb_spec q' q) as [->|N].
    + rewrite Fact, R1. reflexivity.
    + rewrite Fo by exact N. apply R1.
Qed.

Lemma unsub_good q c s :
  Good s -> last_auth (alog s) q <> None -> Good (unsub q c s).
Proof.
  intros G Hok. destruct (unsub_raw_frame q c s) as (Fa & Fo & Fact & Fr).
  apply (good_step_sub s _ (AUnsub q c)); [exact G| |exact I| | | |exact Hok].
  - unfold unsub. apply inv_logA. apply unsub_raw_inv. apply (proj1 G).
  - unfold unsub. cbn. rewrite Fa. reflexivity.
  - intros q'. unfold unsub. cbn. destruct (Nat.eq_dec q' q) as [->|N].
    + apply rest_lrest. exact Fr.
    + rewrite Fo by exact N. reflexivity.
  - intros q'. unfold unsub. cbn. destruct G as ((_ & [R1 _] & _) & _). unfold upd.
    destruct (Nat.eqb_spec q' q) as [->|N].
    + rewrite Fact, R1. reflexivity.
    + rewrite Fo by exact N. apply R1.
Qed.

(* ---- Connection.connection_lost --------------------------------------------------------------------- *)
Definition unsub_all (q : nat) (l : list chan) (s : state) : state :=
  fold_left (fun s c => unsub_raw q c s) l s.

Lemma unsub_all_inv l : forall s q, Inv s -> Inv (unsub_all q l s).
Proof. induction l as [|c l IH]; cbn; intros s q I; [exact I|]. apply IH. apply unsub_raw_inv. exact I. Qed.

Lemma unsub_all_frame l : forall s q,
  alog (unsub_all q l s) = alog s /\
  (forall q', q' <> q -> conns (unsub_all q l s) q' = conns s q') /\
  rest (conns (unsub_all q l s) q) = rest (conns s q).
Proof.
  induction l as [|c l IH]; cbn; intros s q; [repeat split; reflexivity|].
  destruct (IH (unsub_raw q c s) q) as (A & B & C).
  destruct (unsub_raw_frame q c s) as (A' & B' & _ & C').
  unfold unsub_all in *. split; [congruence|]. split; [|congruence].
  intros q' N. rewrite B by assumption. apply B'. assumption.
Qed.

Lemma unsub_all_active l : forall s q,
  NoDup (active (conns s q)) -> (forall c, In c (active (conns s q)) -> In c l) ->
  active (conns (unsub_all q l s) q) = [].
Proof.
  induction l as [|c l IH]; cbn; intros s q ND H.
  - destruct (active (conns s q)) as [|x t]; [reflexivity|]. exfalso. apply (H x). left. reflexivity.
  - destruct (unsub_raw_frame q c s) as (_ & _ & Fact & _).
    apply IH.
    + rewrite Fact. apply NoDup_rmc. exact ND.
    + intros c' Hc'. rewrite Fact in Hc'.
      destruct (bytes_eq_dec c' c) as [->|N].
      * destruct (NoDup_rmc c _ ND) as [_ X]. tauto.
      * apply In_rmc in Hc'. destruct (H _ Hc'); [congruence|assumption].
Qed.

Lemma lostp_good0 q s : Good0 s -> copen (conns s q) = true ->
  Good0 (lostp q s) /\
  (forall q', out (conns (lostp q s) q') = out (conns s q') /\ sp_out (spec (alog (lostp q s))) q' = sp_out (spec (alog s)) q') /\
  alog (lostp q s) = AGone q :: alog s /\
  (forall q', q' <> q -> conns (lostp q s) q' = conns s q') /\
  closing (conns (lostp q s) q) = closing (conns s q) /\ copen (conns (lostp q s) q) = false.
Proof.
  intros G Ho. unfold lostp. fold (unsub_all q (active (conns s q)) s).
  set (s1 := unsub_all q (active (conns s q)) s).
  destruct (unsub_all_frame (active (conns s q)) s q) as (Fa & Fo & Fr). fold s1 in Fa, Fo, Fr.
  assert (I1 : Inv s1) by (apply unsub_all_inv; apply G).
  assert (A : active (conns s1 q) = []).
  { apply unsub_all_active; [apply G|auto]. }
  apply rest_inv in Fr. destruct Fr as (Fm & Fc & Fl & Fab & Fn & Fk & Fp & Fs & Fcl & Fout).
  match goal with |- Good0 ?X /\ _ => set (sf := X) end.
  assert (GS : Good0 sf /\ (forall q0, out (conns sf q0) = out (conns s q0) /\ sp_out (spec (alog sf)) q0 = sp_out (spec (alog s)) q0)).
  { apply (good0_step_sub s _ (AGone q)); [exact G| |exact I| | |  |exact I].
  - destruct I1 as [J1 J2 J3 J4 J5 J6 J7 J8]. constructor; cbn; unfold upd.
    + intros c q'. destruct (Nat.eqb_spec q' q) as [->|Nq]; cbn; intros H.
      * destruct (J1 _ _ H) as [_ B]. rewrite A in B. destruct B.
      * apply (J1 _ _ H).
    + intros q' c. destruct (Nat.eqb_spec q' q) as [->|Nq]; cbn; intros H; [rewrite A in H; destruct H|auto].
    + apply J3.
    + intros q'. destruct (Nat.eqb_spec q' q) as [->|Nq]; cbn; [rewrite A; constructor|apply J4].
    + intros q'. destruct (Nat.eqb_spec q' q) as [->|Nq]; cbn; intros H; [exact A|apply J5; exact H].
    + intros q'. destruct (Nat.eqb_spec q' q) as [->|Nq]; cbn; apply J6.
    + intros q'. destruct (Nat.eqb_spec q' q) as [->|Nq]; cbn; apply J7.
    + intros q'. destruct (Nat.eqb_spec q' q) as [->|Nq]; cbn; [discriminate|apply J8].
  - cbn. rewrite Fa. reflexivity.
  - intros q'. cbn. unfold upd. destruct (Nat.eqb_spec q' q) as [->|N]; cbn.
    + unfold lrest. cbn. congruence.
    + rewrite Fo by exact N. reflexivity.
  - intros q'. cbn. unfold upd. destruct G as (_ & [R1 _] & _).
    destruct (Nat.eqb_spec q' q) as [->|N]; cbn.
    + exact A.
    + rewrite Fo by exact N. apply R1. }
  destruct GS as (GS1 & GS2). split; [exact GS1|]. split; [exact GS2|].
  subst sf. cbn. unfold upd. rewrite Nat.eqb_refl. cbn. split; [rewrite Fa; reflexivity|].
  split; [|split; [exact Fcl|reflexivity]].
  intros q' N. destruct (Nat.eqb_spec q' q); [congruence|]. apply Fo. exact N.
Qed.

Lemma lostp_good q s : Good s -> copen (conns s q) = true -> Good (lostp q s).
Proof.
  intros (G0 & O) Ho. destruct (lostp_good0 q s G0 Ho) as (G0' & F & _).
  split; [exact G0'|]. intros q'. destruct (F q') as (-> & ->). apply O.
Qed.

(* ---- Server.publish: the fan-out loop --------------------------------------------------------------- *)
Lemma wr_good0 q f s : Good0 s -> Good0 (wr q f s).
Proof.
  intros G. unfold wr. destruct (lost (conns s q) || aborted (conns s q)); [exact G|].
  apply (good0_inert s); [exact G| |reflexivity|reflexivity].
  intros q'. rewrite conns_modc. destruct (Nat.eqb q' q) eqn:E; [|reflexivity].
  apply Nat.eqb_eq in E. subst. reflexivity.
Qed.

Lemma deliver_step i c dt s d :
  Good0 s -> copen (conns s d) = true ->
  exists s', deliver i c dt (Ok s) d = Ok s' /\ Good0 s' /\
    (forall q, q <> d -> conns s' q = conns s q) /\
    closing (conns s' d) = closing (conns s d) /\
    pubs (out (conns s' d)) = (if closing (conns s d) then pubs (out (conns s d))
                               else (i, c, dt) :: pubs (out (conns s d))) /\
    (forall q, sp_out (spec (alog s')) q = sp_out (spec (alog s)) q).
Proof.
  intros G Ho. unfold deliver. destruct (closing (conns s d)) eqn:Ec.
  - rewrite Ho. destruct (lostp_good0 d s G Ho) as (G' & F & Fa & Fo & Fc & _).
    exists (lostp d s). split; [reflexivity|]. split; [exact G'|]. split; [exact Fo|].
    split; [congruence|]. split; [destruct (F d) as (-> & _); reflexivity|]. intros q. apply F.
  - exists (wr d (FPub i c dt) s). split; [reflexivity|]. split; [apply wr_good0; exact G|].
    assert (NL : lost (conns s d) || aborted (conns s d) = false).
    { destruct G as ([_ _ _ _ _ I6 I7 _] & _ & _).
      destruct (lost (conns s d)) eqn:E1; [rewrite (I6 _ E1) in Ec; discriminate|].
      destruct (aborted (conns s d)) eqn:E2; [rewrite (I7 _ E2) in Ec; discriminate|]. reflexivity. }
    unfold wr. rewrite NL. cbn. unfold upd. rewrite Nat.eqb_refl. cbn.
    split; [intros q N; destruct (Nat.eqb_spec q d); [congruence|reflexivity]|].
    split; [exact Ec|]. split; reflexivity.
Qed.

Lemma deliver_loop i c dt : forall todo s,
  NoDup todo -> Good0 s -> (forall q, In q todo -> copen (conns s q) = true) ->
  exists s', fold_left (deliver i c dt) todo (Ok s) = Ok s' /\ Good0 s' /\
    (forall q, closing (conns s' q) = closing (conns s q)) /\
    (forall q, pubs (out (conns s' q)) =
               if memn q todo && negb (closing (conns s q)) then (i, c, dt) :: pubs (out (conns s q))
               else pubs (out (conns s q))) /\
    (forall q, sp_out (spec (alog s')) q = sp_out (spec (alog s)) q) /\
    (forall q, ~ In q todo -> conns s' q = conns s q).
Proof.
  induction todo as [|d todo IH]; intros s ND G Ho.
  - exists s. cbn. split; [reflexivity|]. split; [exact G|]. split; [reflexivity|]. split; [reflexivity|]. split; reflexivity.
  - inversion ND as [|? ? Hd ND']; subst.
    destruct (deliver_step i c dt s d G (Ho d (or_introl eq_refl))) as (s1 & E1 & G1 & Fo & Fc & Fp & Fs).
    assert (Ho1 : forall q, In q todo -> copen (conns s1 q) = true).
    { intros q Hq. rewrite Fo; [apply Ho; right; exact Hq|]. intro; subst; contradiction. }
    destruct (IH s1 ND' G1 Ho1) as (s2 & E2 & G2 & Hc2 & Hp2 & Hs2 & Hn2).
    exists s2. cbn [fold_left]. rewrite E1. split; [exact E2|]. split; [exact G2|].
    split; [|split; [|split]].
    + intros q. rewrite Hc2. destruct (Nat.eq_dec q d) as [->|N]; [exact Fc|rewrite Fo by exact N; reflexivity].
    + intros q. rewrite Hp2. cbn [memn existsb]. fold (memn q todo).
      destruct (Nat.eqb_spec q d) as [->|N].
      * assert (M : memn d todo = false).
        { destruct (memn d todo) eqn:M; [apply memn_In in M; contradiction|reflexivity]. }
        rewrite M, Fc, Fp. cbn. destruct (closing (conns s d)); reflexivity.
      * rewrite Fo by exact N. cbn. reflexivity.
    + intros q. rewrite Hs2. apply Fs.
    + intros q Hq. rewrite Hn2; [apply Fo|]; intro; apply Hq; [left; congruence|right; assumption].
Qed.

Lemma memn_nodup q l : memn q (nodup Nat.eq_dec l) = memn q l.
Proof.
  destruct (memn q l) eqn:M.
  - apply memn_In. apply nodup_In. apply memn_In. exact M.
  - destruct (memn q (nodup Nat.eq_dec l)) eqn:M2; [|reflexivity].
    apply memn_In in M2. apply nodup_In in M2. apply memn_In in M2. congruence.
Qed.

Lemma publish_good p c dt s i r :
  Good s -> last_auth (alog s) p = Some (i, r) -> In c (r_pub r) ->
  exists s', publish p c dt s = Ok s' /\ Good s'.
Proof.
  intros (G0 & O) Hla Hin. unfold publish.
  assert (Hak : akl (conns s p) = i).
  { destruct G0 as (_ & _ & [L1 _ _]). specialize (L1 p). unfold ak_link in L1. rewrite Hla in L1.
    unfold akl. destruct L1 as (-> & _). reflexivity. }
  rewrite Hak.
  set (s0 := logA (APub p i c dt) s).
  assert (G00 : Good0 s0).
  { destruct G0 as (I & [R1 R2] & [L1 L2 L3]). split; [apply inv_logA; exact I|]. split.
    - constructor; intros q; cbn; [apply R1|apply R2].
    - constructor; cbn.
      + intros q. specialize (L1 q). unfold ak_link in *. cbn. exact L1.
      + intros q. specialize (L2 q). unfold nonce_link in *. cbn. exact L2.
      + split; [exists r; split; assumption|exact L3]. }
  assert (Hsub : subs s0 c = subs s c) by reflexivity.
  destruct (deliver_loop i c dt (nodup Nat.eq_dec (subs s c)) s0 (NoDup_nodup _ _) G00) as (s' & E & G' & Hc & Hp & Hs & _).
  { intros q Hq. apply nodup_In in Hq. destruct G0 as ([I1 _ _ _ _ _ _ _] & _ & _). apply (I1 _ _ Hq). }
  exists s'. split; [exact E|]. split; [exact G'|].
  intros q. rewrite Hp, Hs. cbn. rewrite memn_nodup.
  destruct G0 as ([I1 I2 _ _ _ _ _ _] & [R1 R2] & _).
  rewrite <- R1, <- R2, <- O.
  assert (EQ : memn q (subs s c) = memc c (active (conns s q))).
  { destruct (memn q (subs s c)) eqn:M.
    - apply memn_In in M. symmetry. apply memc_In. apply (I1 _ _ M).
    - destruct (memc c (active (conns s q))) eqn:M2; [|reflexivity].
      apply memc_In in M2. apply I2 in M2. apply memn_In in M2. congruence. }
  rewrite EQ. reflexivity.
Qed.

End Inv.
