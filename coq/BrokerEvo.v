(* BrokerEvo.v — how the state may evolve in one callback (monotone facts):
   the log only grows and a new connection entry is logged only for an index not used before;
   a made connection stays made with the same nonce; closing, lost and "no longer registered" are
   permanent. *)
From Coq Require Import ZArith List Bool Arith Lia.
From HP Require Import Bytes Sha1 Wire ParamsOK Broker BrokerSpec BrokerLemmas.
Import ListNotations.

Section E.
Variable bname : bytes.

Record evo (s s' : state) : Prop := {
  e_log : exists new, alog s' = new ++ alog s /\ (forall q n, In (AConn q n) new -> made (conns s q) = false);
  e_made : forall q, made (conns s q) = true -> made (conns s' q) = true /\ nonce (conns s' q) = nonce (conns s q);
  e_closing : forall q, made (conns s q) = true -> closing (conns s q) = true -> closing (conns s' q) = true;
  e_copen : forall q, made (conns s q) = true -> copen (conns s q) = false -> copen (conns s' q) = false;
  e_lost : forall q, made (conns s q) = true -> lost (conns s q) = true -> lost (conns s' q) = true;
  e_out : forall q, made (conns s q) = true -> exists l, out (conns s' q) = l ++ out (conns s q);
  e_new : forall q, made (conns s q) = false -> made (conns s' q) = true ->
          exists l, out (conns s' q) = l ++ [FInfo bname (nonce (conns s' q))] }.

Lemma evo_refl s : evo s s.
Proof. constructor; auto; [exists []; split; [reflexivity|]; intros q n []|intros q _; exists []; reflexivity|intros; congruence]. Qed.

Lemma evo_trans s1 s2 s3 : evo s1 s2 -> evo s2 s3 -> evo s1 s3.
Proof.
  intros [[n1 [L1 C1]] M1 K1 O1 T1 U1 N1] [[n2 [L2 C2]] M2 K2 O2 T2 U2 N2]. constructor.
  - exists (n2 ++ n1). split; [rewrite L2, L1, app_assoc; reflexivity|].
    intros q n H. apply in_app_or in H. destruct H as [H|H]; [|eapply C1; eassumption].
    specialize (C2 _ _ H). destruct (made (conns s1 q)) eqn:E; [|reflexivity].
    destruct (M1 _ E) as [E' _]. congruence.
  - intros q H. destruct (M1 _ H) as [A B]. destruct (M2 _ A) as [A' B']. split; congruence.
  - intros q Hm H. destruct (M1 _ Hm) as [A _]. apply K2; [exact A|]. apply K1; assumption.
  - intros q Hm H. destruct (M1 _ Hm) as [A _]. apply O2; [exact A|]. apply O1; assumption.
  - intros q Hm H. destruct (M1 _ Hm) as [A _]. apply T2; [exact A|]. apply T1; assumption.
  - intros q Hm. destruct (M1 _ Hm) as [A _]. destruct (U1 _ Hm) as [l1 E1]. destruct (U2 _ A) as [l2 E2].
    exists (l2 ++ l1). rewrite E2, E1, app_assoc. reflexivity.
  - intros q H1 H3. destruct (made (conns s2 q)) eqn:H2.
    + destruct (N1 _ H1 H2) as [l E]. destruct (M2 _ H2) as [_ En]. destruct (U2 _ H2) as [l' E'].
      exists (l' ++ l). rewrite E', E, En, app_assoc. reflexivity.
    + apply N2; assumption.
Qed.

(* a step that keeps the log and, per connection, made/nonce, and only raises closing/lost and
   only lowers copen *)
Lemma evo_conns s s' :
  alog s' = alog s ->
  (forall q, made (conns s' q) = made (conns s q) /\ nonce (conns s' q) = nonce (conns s q) /\
             (closing (conns s q) = true -> closing (conns s' q) = true) /\
             (copen (conns s q) = false -> copen (conns s' q) = false) /\
             (lost (conns s q) = true -> lost (conns s' q) = true) /\
             (exists l, out (conns s' q) = l ++ out (conns s q))) ->
  evo s s'.
Proof.
  intros Ha H. constructor.
  - exists []. split; [exact Ha|]. intros q n [].
  - intros q Hm. destruct (H q) as (A & B & _). split; congruence.
  - intros q _ Hc. apply H. exact Hc.
  - intros q _ Hc. apply H. exact Hc.
  - intros q _ Hc. apply H. exact Hc.
  - intros q _. apply H.
  - intros q H1 H2. destruct (H q) as (A & _). congruence.
Qed.

Lemma evo_log1 s s' a :
  alog s' = a :: alog s -> (forall q n, a <> AConn q n) ->
  (forall q, made (conns s' q) = made (conns s q) /\ nonce (conns s' q) = nonce (conns s q) /\
             (closing (conns s q) = true -> closing (conns s' q) = true) /\
             (copen (conns s q) = false -> copen (conns s' q) = false) /\
             (lost (conns s q) = true -> lost (conns s' q) = true) /\
             (exists l, out (conns s' q) = l ++ out (conns s q))) ->
  evo s s'.
Proof.
  intros Ha Hn H. constructor.
  - exists [a]. split; [exact Ha|]. intros q n [E|[]]. exfalso. eapply Hn. exact E.
  - intros q Hm. destruct (H q) as (A & B & _). split; congruence.
  - intros q _ Hc. apply H. exact Hc.
  - intros q _ Hc. apply H. exact Hc.
  - intros q _ Hc. apply H. exact Hc.
  - intros q _. apply H.
  - intros q H1 H2. destruct (H q) as (A & _). congruence.
Qed.

Ltac ex_nil := try (exists []; reflexivity).
Ltac modc_tac :=
  intros q'; cbn; unfold upd;
  match goal with |- context [Nat.eqb q' ?x] => destruct (Nat.eqb_spec q' x) end; subst; cbn; repeat split; auto; ex_nil.

Lemma modc_evo q f s :
  (forall c, made (f c) = made c /\ nonce (f c) = nonce c /\ (closing c = true -> closing (f c) = true) /\
             (copen c = false -> copen (f c) = false) /\ (lost c = true -> lost (f c) = true) /\
             (exists l, out (f c) = l ++ out c)) ->
  evo s (modc q f s).
Proof.
  intros H. apply evo_conns; [reflexivity|]. intros q'. cbn. unfold upd.
  destruct (Nat.eqb_spec q' q); subst; [apply H|repeat split; auto; exists []; reflexivity].
Qed.

Lemma wr_evo q f s : evo s (wr q f s).
Proof.
  unfold wr. destruct (_ || _); [apply evo_refl|].
  apply evo_conns; [reflexivity|]. intros q'. cbn. unfold upd.
  destruct (Nat.eqb_spec q' q); subst; cbn; repeat split; auto; [exists [f]; reflexivity|exists []; reflexivity].
Qed.
Lemma cl_evo q s : evo s (cl q s).
Proof.
  unfold cl. destruct (closing (conns s q)) eqn:E; [apply evo_refl|].
  apply (evo_log1 _ _ (AClose q)); [reflexivity|intros; discriminate|]. modc_tac.
Qed.
Lemma bad_evo q s : evo s (bad q s).
Proof. unfold bad. eapply evo_trans; [apply wr_evo|apply cl_evo]. Qed.
Lemma pause_r_evo q s : evo s (pause_r q s).
Proof. unfold pause_r. destruct (_ || _); [apply evo_refl|]. apply modc_evo. intros c. cbn. repeat split; auto; ex_nil. Qed.
Lemma resume_r_evo q s : evo s (resume_r q s).
Proof. unfold resume_r. destruct (_ || _); [apply evo_refl|]. apply modc_evo. intros c. cbn. repeat split; auto; ex_nil. Qed.

Lemma sub_raw_evo q c s : evo s (sub_raw q c s).
Proof.
  unfold sub_raw. destruct (memc _ _); [apply evo_refl|].
  apply evo_conns; [reflexivity|]. modc_tac.
Qed.
Lemma unsub_raw_evo q c s : evo s (unsub_raw q c s).
Proof.
  unfold unsub_raw. destruct (memc _ _); [|apply evo_refl].
  apply evo_conns; [reflexivity|]. modc_tac.
Qed.
Lemma logA_evo a s : (forall q n, a <> AConn q n) -> evo s (logA a s).
Proof. intros H. apply (evo_log1 _ _ a); [reflexivity|exact H|]. intros q. repeat split; auto; ex_nil. Qed.
Lemma sub_evo q c s : evo s (sub q c s).
Proof. unfold sub. eapply evo_trans; [apply sub_raw_evo|apply logA_evo; intros; discriminate]. Qed.
Lemma unsub_evo q c s : evo s (unsub q c s).
Proof. unfold unsub. eapply evo_trans; [apply unsub_raw_evo|apply logA_evo; intros; discriminate]. Qed.

Lemma unsub_all_evo q l : forall s, evo s (fold_left (fun s c => unsub_raw q c s) l s).
Proof.
  induction l as [|c l IH]; intros s; cbn; [apply evo_refl|].
  eapply evo_trans; [apply unsub_raw_evo|apply IH].
Qed.
Lemma lostp_evo q s : evo s (lostp q s).
Proof.
  unfold lostp. set (s1 := fold_left (fun s c => unsub_raw q c s) (active (conns s q)) s).
  apply (evo_trans s s1); [apply unsub_all_evo|].
  apply (evo_log1 _ _ (AGone q)); [reflexivity|intros; discriminate|]. modc_tac.
Qed.

Lemma deliver_evo i c d r dest : evo (st r) (st (deliver i c d r dest)).
Proof.
  unfold deliver. destruct r as [s|s|s]; cbn; try apply evo_refl.
  destruct (closing (conns s dest)).
  - destruct (copen (conns s dest)); cbn; [apply lostp_evo|apply evo_refl].
  - cbn. apply wr_evo.
Qed.
Lemma deliver_loop_evo i c d l : forall r, evo (st r) (st (fold_left (deliver i c d) l r)).
Proof.
  induction l as [|x l IH]; intros r; cbn; [apply evo_refl|].
  eapply evo_trans; [apply deliver_evo|apply IH].
Qed.
Lemma publish_evo p c d s : evo s (st (publish p c d s)).
Proof.
  unfold publish. eapply evo_trans; [apply (logA_evo (APub p (akl (conns s p)) c d)); intros; discriminate|].
  apply (deliver_loop_evo _ _ _ _ (Ok _)).
Qed.

Section Evo.
Variable store : ident -> lookup.
Variable async_store : bool.

Definition kevo (k : state -> res) : Prop := forall s, evo s (st (k s)).
Lemma regauge_evo q i s : evo s (regauge q i s).
Proof. apply evo_conns; [reflexivity|]. intros q'. cbn. repeat split; auto. exists []. reflexivity. Qed.

Lemma authenticate_evo k q i dg l s : kevo k -> evo s (st (authenticate k q i dg l s)).
Proof.
  intros Hk. unfold authenticate. destruct l as [|r]; [cbn; apply bad_evo|].
  destruct (bytes_eqb _ _); [|cbn; apply bad_evo].
  match goal with |- context [k ?X] => assert (E1 : evo s X) end.
  { eapply evo_trans; [apply (regauge_evo q i)|]. eapply evo_trans; [|apply logA_evo; intros; discriminate].
    apply modc_evo. intros c. cbn. repeat split; auto; ex_nil. }
  match goal with |- context [k ?X] => pose proof (Hk X) as E2; destruct (k X) end; cbn in *.
  - eapply evo_trans; [exact E1|]. destruct (pending _); [eapply evo_trans; [exact E2|apply resume_r_evo]|exact E2].
  - eapply evo_trans; eassumption.
  - eapply evo_trans; eassumption.
Qed.

Lemma on_auth_evo k q i dg s : kevo k -> evo s (st (fst (on_auth store async_store k q i dg s))).
Proof.
  intros Hk. unfold on_auth. destruct (negb _); cbn; [apply evo_refl|].
  destruct async_store; cbn.
  - eapply evo_trans; [|apply pause_r_evo]. apply modc_evo. intros c. cbn. repeat split; auto; ex_nil.
  - apply authenticate_evo. exact Hk.
Qed.
Lemma on_publish_evo q i c d s : evo s (st (on_publish q i c d s)).
Proof.
  unfold on_publish. destruct (ak _); [|cbn; apply bad_evo].
  destruct (negb _); [cbn; apply bad_evo|]. destruct (negb _); [cbn; apply bad_evo|].
  destruct (negb _); [cbn; apply evo_refl|]. apply publish_evo.
Qed.
Lemma on_subscribe_evo q c s : evo s (st (on_subscribe q c s)).
Proof.
  unfold on_subscribe. destruct (negb _); [cbn; apply bad_evo|].
  destruct (negb _); cbn; [apply evo_refl|apply sub_evo].
Qed.
Lemma on_unsubscribe_evo q c s : evo s (st (on_unsubscribe q c s)).
Proof. unfold on_unsubscribe. destruct (negb _); cbn; [apply evo_refl|apply unsub_evo]. Qed.

Lemma handle_evo k q op body s : kevo k -> evo s (st (fst (handle store async_store k q op body s))).
Proof.
  intros Hk. unfold handle. destruct (Z.eqb op 2).
  { destruct (readauth body) as [[i dg]|]; [apply on_auth_evo; exact Hk|cbn; apply evo_refl]. }
  destruct (ak _); [|cbn; apply bad_evo].
  destruct (Z.eqb op 3).
  { destruct (readpublish body) as [[[i3 c3] d3]|]; [apply on_publish_evo|cbn; apply evo_refl]. }
  destruct (Z.eqb op 4).
  { destruct (readsubscribe body) as [[i4 c4]|]; [apply on_subscribe_evo|cbn; apply evo_refl]. }
  destruct (Z.eqb op 5).
  { destruct (readunsubscribe body) as [[i5 c5]|]; [apply on_unsubscribe_evo|cbn; apply evo_refl]. }
  cbn. apply evo_refl.
Qed.

Lemma pp_evo fuel q : kevo (pp store async_store fuel q).
Proof.
  induction fuel as [|f IH]; intros s; [apply evo_refl|].
  cbn [pp]. destruct (next limitP _) as [|c|op body rest].
  - apply evo_refl.
  - cbn. apply cl_evo.
  - set (s1 := modc q (set_buf rest) s).
    assert (E1 : evo s s1). { apply modc_evo. intros c. cbn. repeat split; auto; ex_nil. }
    pose proof (handle_evo (pp store async_store f q) q op body s1 IH) as H.
    destruct (handle _ _ _ _ _ _ s1) as [r b]. cbn in H.
    destruct r as [s2|s2|s2]; cbn; try (eapply evo_trans; eassumption).
    destruct b; [eapply evo_trans; eassumption|].
    eapply evo_trans; [exact E1|]. eapply evo_trans; [exact H|apply IH].
Qed.
Lemma ppq_evo q : kevo (ppq store async_store q).
Proof. intros s. unfold ppq. apply pp_evo. Qed.

Lemma abort_evo q s : evo s (abort q s).
Proof. unfold abort. eapply evo_trans; [|apply cl_evo]. apply modc_evo. intros c. cbn. repeat split; auto; ex_nil. Qed.

Lemma do_connect_fresh q n s : made (conns s q) = false ->
  let s' := do_connect bname q n s in
  alog s' = AConn q n :: alog s /\ (forall q', q' <> q -> conns s' q' = conns s q') /\
  made (conns s' q) = true /\ nonce (conns s' q) = n /\ out (conns s' q) = [FInfo bname n].
Proof.
  intros Hm. unfold do_connect, wr. rewrite Hm. cbn. unfold upd. rewrite !Nat.eqb_refl. cbn.
  unfold upd. rewrite !Nat.eqb_refl. cbn. repeat split.
  intros q' N. destruct (Nat.eqb_spec q' q); [congruence|reflexivity].
Qed.

Lemma step_evo s e : evo s (step bname store async_store s e).
Proof.
  destruct e; cbn [step].
  - (* connect *)
    destruct (made (conns s q)) eqn:Hm; [unfold do_connect; rewrite Hm; apply evo_refl|].
    destruct (do_connect_fresh q n s Hm) as (Ea & Eo & E1 & E2 & E3).
    constructor.
    + exists [AConn q n]. split; [exact Ea|]. intros q' n' [E|[]]. inversion E; subst. exact Hm.
    + intros q' H. assert (q' <> q) by congruence. rewrite Eo by assumption. auto.
    + intros q' H. assert (q' <> q) by congruence. rewrite Eo by assumption. auto.
    + intros q' H. assert (q' <> q) by congruence. rewrite Eo by assumption. auto.
    + intros q' H. assert (q' <> q) by congruence. rewrite Eo by assumption. auto.
    + intros q' H. assert (q' <> q) by congruence. rewrite Eo by assumption. exists []. reflexivity.
    + intros q' H H'. destruct (Nat.eq_dec q' q) as [->|N]; [|rewrite Eo in H' by exact N; congruence].
      rewrite E3, E2. exists []. reflexivity.
  - unfold do_data. destruct (can_read _); [|apply evo_refl].
    match goal with |- context [ppq _ _ q ?X] => assert (E1 : evo s X) by (apply modc_evo; intros c; cbn; repeat split; auto; ex_nil);
      pose proof (ppq_evo q X) as E2; destruct (ppq _ _ q X) end; cbn in E2.
    + eapply evo_trans; eassumption.
    + eapply evo_trans; [exact E1|]. eapply evo_trans; [exact E2|apply abort_evo].
    + eapply evo_trans; eassumption.
  - unfold do_peer_closed. destruct (can_read _); [apply cl_evo|apply evo_refl].
  - unfold do_lost. destruct (_ && _); [|apply evo_refl].
    eapply evo_trans; [apply cl_evo|].
    eapply evo_trans; [|apply modc_evo; intros c; cbn; repeat split; auto; ex_nil].
    destruct (copen _); [apply lostp_evo|apply evo_refl].
  - unfold do_lookup_done. destruct (negb _); [apply evo_refl|].
    destruct (pending _) as [|[i dg] rest]; [apply evo_refl|].
    eapply evo_trans; [apply (modc_evo q (set_pending rest)); intros c; cbn; repeat split; auto; ex_nil|].
    destruct r; [|apply bad_evo].
    match goal with |- evo ?X (match ?A with _ => _ end) => pose proof (authenticate_evo (ppq store async_store q) q i dg l X (ppq_evo q)) as EA;
      destruct A end; cbn in *; [exact EA|eapply evo_trans; [exact EA|apply cl_evo]|exact EA].
  - unfold do_pausew. destruct (_ && _); [|apply evo_refl]. apply modc_evo; intros c; cbn; repeat split; auto; ex_nil.
  - unfold do_resumew. destruct (_ && _); [|apply evo_refl]. apply modc_evo; intros c; cbn; repeat split; auto; ex_nil.
  - unfold do_tick. generalize (rev (ids s)). intros l. revert s.
    induction l as [|x l IH]; intros s; cbn; [apply evo_refl|].
    eapply evo_trans; [|apply IH]. unfold tick1. destruct (timer _); [|apply evo_refl].
    destruct (_ <=? _)%nat.
    + eapply evo_trans; [|apply bad_evo]. apply modc_evo; intros c; cbn; repeat split; auto; ex_nil.
    + apply modc_evo; intros c; cbn; repeat split; auto; ex_nil.
Qed.
End Evo.
End E.
