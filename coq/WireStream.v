(* WireStream.v — C06 / C07 for the decoder with the limits read from /repo on this run. *)
From Coq Require Import ZArith List Lia Bool ZifyBool.
From Coq Require Import Strings.Byte.
From HP Require Import Bytes Utf8 Sha1 Wire WireFacts Params ParamsOK.
Import ListNotations.
Open Scope Z_scope.

Notation nextP := (next limitP).
Notation parseP := (parse limitP).
Notation feed_allP := (feed_all limitP).
Notation wf_frameP := (wf_frame limitP).
Notation frame_okP := (frame_ok limitP).

(* C06: for EVERY byte stream, what the decoder has yielded / buffered / raised after feeding the
   chunks one by one is what it yields / buffers / raises when given their concatenation at once *)
Lemma chunk_independent chunks : feed_allP chunks = parseP (concat chunks).
Proof. apply feed_all_parse. Qed.

(* ... so a sequence of well-formed frames plus an incomplete tail comes out as exactly that
   sequence, in order, each once, and only the tail stays buffered, however it was cut *)
Lemma frames_any_chunking fs p chunks :
  Forall wf_frameP fs -> nextP p = NeedMore -> concat chunks = concat (map enc fs) ++ p ->
  feed_allP chunks = (fs, p, None).
Proof. intros Hf Hp Hc. rewrite chunk_independent, Hc. apply parse_frames; assumption. Qed.

(* promptness: after the first k chunks, exactly the frames whose last byte lies within them have
   been yielded; the frame f still in flight has not, and its received part is the whole buffer *)
Lemma prompt fs1 f p1 chunks k :
  Forall wf_frameP fs1 -> wf_frameP f -> (exists s, s <> [] /\ p1 ++ s = enc f) ->
  concat (firstn k chunks) = concat (map enc fs1) ++ p1 ->
  feed_allP (firstn k chunks) = (fs1, p1, None).
Proof.
  intros Hf [Ho [Hl Hb]] Hs Hc. apply frames_any_chunking; [exact Hf| |exact Hc].
  destruct f as [op body]. cbn [fst snd] in *. eapply next_prefix_needmore; eauto.
Qed.

Lemma wf_frame_of_ok f : frame_okP f -> wf_frameP f.
Proof.
  intros [Ho Hl]. split; [exact Ho|]. destruct (limits_ok (fst f) Ho) as [[_ L] _]. lia.
Qed.

(* C07 *)
Lemma total chunks : forall fs r e, feed_allP chunks = (fs, r, e) -> e <> Some (-1).
Proof. intros fs r e H. rewrite chunk_independent in H. eapply parse_total; exact H. Qed.

Lemma outcomes chunks fs r e : feed_allP chunks = (fs, r, e) ->
  concat chunks = concat (map enc fs) ++ r /\ Forall frame_okP fs /\
  (e = None /\ nextP r = NeedMore \/ exists c, e = Some c /\ (c = 1 \/ c = 2 \/ c = 3) /\ nextP r = Bad c).
Proof.
  intros H. rewrite chunk_independent in H. unfold parse in H.
  destruct (drain_decomp limitP _ _ _ _ _ H) as [Hd Hf]. split; [exact Hd|]. split; [exact Hf|].
  destruct e as [c|].
  - right. exists c. pose proof (drain_total limitP (S (length (concat chunks))) (concat chunks) fs r (Some c) ltac:(lia) H) as Hc.
    assert (c <> -1) by congruence.
    pose proof (drain_bad_residue limitP _ _ _ _ _ H ltac:(assumption)) as Hb.
    split; [reflexivity|]. split; [eapply next_bad_code; exact Hb|exact Hb].
  - left. split; [reflexivity|]. eapply drain_residue; exact H.
Qed.

Lemma bounded chunks fs r : feed_allP chunks = (fs, r, None) -> zlen r < max_limit.
Proof.
  intros H. destruct (outcomes _ _ _ _ H) as (_ & _ & [[_ Hn]|[c [Hc _]]]); [|discriminate].
  eapply needmore_bounded; [|apply max_limit_ok|exact Hn].
  intros op Ho. apply limits_ok. exact Ho.
Qed.

Lemma reject_at_header b0 b1 b2 b3 o tl :
  let ml := de32 b0 b1 b2 b3 in let op := bz o in
  ((exists c, nextP (b0::b1::b2::b3::o::tl) = Bad c) <-> (5 < op \/ limitP op < ml \/ ml < 5)) /\
  (forall c, nextP [b0;b1;b2;b3;o] = Bad c <-> nextP (b0::b1::b2::b3::o::tl) = Bad c).
Proof. cbv zeta. split; [apply next_header_verdict|intros c; apply next_bad_header]. Qed.

(* the unrepaired decoder (pinned tree, before the "fix:" commit): no lower bound on the length.
   Python slice semantics: buf[5:][:ml-5] and del buf[:ml] with ml possibly <= 0. *)
Definition pyslice_to (l : bytes) (k : Z) : bytes :=       (* l[:k] *)
  if k <? 0 then firstn (Z.to_nat (zlen l + k)) l else firstn (Z.to_nat k) l.
Definition pydel_to (l : bytes) (k : Z) : bytes :=         (* del l[:k] *)
  if k <? 0 then skipn (Z.to_nat (zlen l + k)) l else skipn (Z.to_nat k) l.
Definition next_unrepaired (buf : bytes) : status :=
  match buf with
  | b0 :: b1 :: b2 :: b3 :: o :: tl =>
      let ml := de32 b0 b1 b2 b3 in
      let op := bz o in
      if 5 <? op then Bad 1
      else if limitP op <? ml then Bad 2
      else if zlen buf <? ml then NeedMore
      else Ready op (pyslice_to tl (ml - 5)) (pydel_to buf ml)
  | _ => NeedMore
  end.
Fixpoint drain_unrepaired (fuel : nat) (buf : bytes) : nat * option Z :=
  match fuel with
  | O => (O, Some (-1))
  | S f => match next_unrepaired buf with
           | NeedMore => (O, None) | Bad c => (O, Some c)
           | Ready _ _ rest => let '(n, e) := drain_unrepaired f rest in (S n, e) end
  end.
(* five zero bytes: every amount of fuel is exhausted — the loop never ends *)
Lemma unrepaired_diverges : forall fuel, drain_unrepaired fuel [x00;x00;x00;x00;x00] = (fuel, Some (-1)).
Proof.
  induction fuel as [|f IH]; [reflexivity|].
  cbn [drain_unrepaired].
  replace (next_unrepaired [x00;x00;x00;x00;x00]) with (Ready 0 [] [x00;x00;x00;x00;x00]) by (vm_compute; reflexivity).
  rewrite IH. reflexivity.
Qed.
