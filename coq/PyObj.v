(* PyObj.v — the object layer harness/pytrans2.py translates the three client protocol classes into
   (hpfeeds/asyncio/protocol.py, hpfeeds/blocking/protocol.py, hpfeeds/twisted/protocol.py; definitions only).

   A protocol object is reduced to what C16 is about: the buffer of its Unpacker and the log of what a recording
   subclass and the transport see (ClientProto.cev: handler calls with their arguments, bytes written, close,
   protocol_error, connection_ready).  Methods run in a state-and-exception monad over that pair.  `for x in
   self.unpacker` calls the translated __next__ until it raises StopIteration (fuel S(len(buf)), never exhausted:
   ProtoClsEq); `try/except Cls` catches the classes hpfeeds/exceptions.py derives from Cls. *)
From Coq Require Import ZArith List Bool String.
From Coq Require Import Strings.Byte.
From HP Require Import Bytes Utf8 Sha1 Wire PyPrim ProtoGen.
From HP Require ClientProto.
Import ListNotations.
Open Scope Z_scope.

Record pst := mkpst { ubuf : val; plog : list ClientProto.cev }.
Definition MS (A : Type) := pst -> res A * pst.
Definition retS {A} (a : A) : MS A := fun s => (Ok a, s).
Definition bindS {A B} (m : MS A) (f : A -> MS B) : MS B :=
  fun s => match m s with (Ok a, s') => f a s' | (Raise e, s') => (Raise e, s') end.
Definition liftS {A} (r : res A) : MS A := fun s => (r, s).
Definition raiseS {A} (e : exn) : MS A := fun s => (Raise e, s).
Definition emit (e : ClientProto.cev) : MS val := fun s => (Ok VNone, mkpst (ubuf s) (plog s ++ [e])).
(* a method of self.unpacker *)
Definition on_unpacker (m : M val) : MS val :=
  fun s => let '(r, b) := m (ubuf s) in (r, mkpst b (plog s)).

(* what the recording subclass logs, from the dynamic values the handlers are called with *)
Definition as_text (v : val) : option bytes := match v with VStr s => Some s | _ => None end.
Definition as_raw (v : val) : option bytes := match v with VBytes b | VBArr b => Some b | _ => None end.
Definition ev2 (mk : bytes -> bytes -> ClientProto.cev) (a b : option bytes) : MS val :=
  match a, b with Some x, Some y => emit (mk x y) | _, _ => raiseS Unsupported end.
Definition log_info (n r : val) := ev2 ClientProto.HInfo (as_text n) (as_raw r).
Definition log_auth (i d : val) := ev2 ClientProto.HAuth (as_text i) (as_raw d).
Definition log_subscribe (i c : val) := ev2 ClientProto.HSubscribe (as_text i) (as_text c).
Definition log_unsubscribe (i c : val) := ev2 ClientProto.HUnsubscribe (as_text i) (as_text c).
Definition log_publish (i c d : val) : MS val :=
  match as_text i, as_text c, as_raw d with
  | Some x, Some y, Some z => emit (ClientProto.HPublish x y z) | _, _, _ => raiseS Unsupported end.
Definition log_error (e : val) : MS val :=
  match as_text e with Some x => emit (ClientProto.HError x) | None => raiseS Unsupported end.
Definition log_write (v : val) : MS val :=
  match as_raw v with Some b => emit (ClientProto.Write b) | None => raiseS TypeError end.

Definition py_untuple3 (v : val) : res (val * val * val) :=
  match v with
  | VTuple [a; b; c] => Ok (a, b, c)
  | VTuple _ => Raise TypeError            (* star-arguments with the wrong number of items *)
  | _ => Raise Unsupported
  end.
Definition py_untuple2' (v : val) : res (val * val) :=
  match v with VTuple [a; b] => Ok (a, b) | VTuple _ => Raise TypeError | _ => Raise Unsupported end.

(* except Cls: the exception classes of hpfeeds/exceptions.py that derive from it are listed by the translator *)
Definition try_except (m : MS val) (caught : list string) (h : MS val) : MS val :=
  fun s => match m s with
           | (Raise (Exc c k), s') =>
               if existsb (String.eqb c) caught then h s' else (Raise (Exc c k), s')
           | r => r
           end.

Inductive loopctl := LNext | LBreak.
Definition is_stop (e : exn) : bool := match e with Exc c _ => String.eqb c "StopIteration" end.
Fixpoint for_unpacker (fuel : nat) (body : val -> MS loopctl) : MS val :=
  match fuel with
  | O => raiseS Unsupported
  | S f => fun s =>
      match on_unpacker Unpacker_next s with
      | (Ok v, s1) =>
          match body v s1 with
          | (Ok LBreak, s2) => (Ok VNone, s2)
          | (Ok LNext, s2) => for_unpacker f body s2
          | (Raise e, s2) => (Raise e, s2)
          end
      | (Raise e, s1) => if is_stop e then (Ok VNone, s1) else (Raise e, s1)
      end
  end.
Definition buf_len (v : val) : nat := match v with VBArr b | VBytes b => List.length b | _ => O end.
Definition for_in_unpacker (body : val -> MS loopctl) : MS val :=
  fun s => for_unpacker (S (buf_len (ubuf s))) body s.
