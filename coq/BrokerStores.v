(* BrokerStores.v — the credential store may change while the broker runs.

   A synchronous store is asked anew at every OP_AUTH, so a history is a list of segments, each played under the store
   contents then in effect (what harness/broker.py's 'S' events and BrokerRun.cstep do).  The invariant of BrokerInv.v only
   needs to know which rows MAY be authenticated with ([okrow]); taking "some store of the history held that row for that
   ident" makes every step lemma go through unchanged (BrokerStepG.v = BrokerStep.v with [okrow] abstract), so the registry
   invariant, the refinement of the abstract pub/sub machine and the legitimacy of the log hold for every segmented
   history - in particular an accepted OP_AUTH always used a secret that some store of the history really held. *)
From Coq Require Import ZArith List Bool Arith.
From HP Require Import Bytes Sha1 Wire Broker BrokerSpec BrokerLemmas BrokerInv BrokerProps.
From HP Require BrokerStepG.
Import ListNotations.

Section Stores.
Variable bname : bytes.
Variable async_store : bool.

Definition seg := ((ident -> lookup) * list event)%type.
Definition run_seg (s : state) (sg : seg) : state := fold_left (step bname (fst sg) async_store) (snd sg) s.
Definition runs (segs : list seg) : state := fold_left run_seg segs state0.
(* some store of the history held row r for ident i *)
Definition vouched (segs : list seg) : ident -> row -> Prop := fun i r => exists sg, In sg segs /\ fst sg i = LRow r.

Lemma runs_good_gen (okrow : ident -> row -> Prop) segs :
  (forall sg, In sg segs -> forall i r, fst sg i = LRow r -> okrow i r) ->
  forall s, Good okrow async_store s -> Good okrow async_store (fold_left run_seg segs s).
Proof.
  induction segs as [|sg segs IH]; intros Hok s G; cbn [fold_left]; [exact G|].
  apply IH; [intros sg' Hin; apply Hok; right; exact Hin|].
  unfold run_seg. assert (Hs : forall i r, fst sg i = LRow r -> okrow i r) by (apply Hok; left; reflexivity).
  generalize (snd sg). intros es. revert s G. induction es as [|e es IHe]; intros s G; cbn [fold_left]; [exact G|].
  apply IHe. apply (BrokerStepG.step_good bname (fst sg) okrow Hs async_store). exact G.
Qed.

Theorem runs_good segs : Good (vouched segs) async_store (runs segs).
Proof.
  unfold runs. apply runs_good_gen.
  - intros sg Hin i r H. exists sg. split; assumption.
  - apply (BrokerStepG.good_state0 (vouched segs) async_store).
Qed.

(* C01 for a changing store: what every connection was sent is what the abstract machine delivers for the accepted actions *)
Theorem runs_refines segs q : pubs (out (conns (runs segs) q)) = sp_out (spec (alog (runs segs))) q.
Proof. destruct (runs_good segs) as (_ & O). apply O. Qed.

(* C02 for a changing store: every accepted OP_AUTH answered this connection's own nonce with the secret of a row that
   some store of the history held for the claimed ident *)
Theorem runs_auth_legit segs l1 q i r dg t : alog (runs segs) = l1 ++ AAuth q i r dg :: t ->
  exists n, conn_nonce t q = Some n /\ dg = sha1 (n ++ r_secret r) /\ (async_store = false -> vouched segs i r).
Proof.
  intros E. destruct (runs_good segs) as ((_ & _ & [_ _ L3]) & _). rewrite E in L3.
  destruct (log_ok_app _ _ _ _ _ L3) as (A & _). exact A.
Qed.

(* one segment = the fixed-store run of Broker.run *)
Lemma runs_one st h : runs [(st, h)] = run bname st async_store h.
Proof. reflexivity. Qed.
End Stores.

(* non-vacuity: "a" authenticates with secret "k"; the store then rotates the secret to "K"; a second connection presents
   the OLD secret and is refused, a third the NEW one and is accepted; the first stays authenticated *)
From Coq Require Import Strings.Byte.
Module StoresExample.
Definition row1 : row := mkrow [x6b] [[x78]] [[x78]].
Definition row2 : row := mkrow [x4b] [[x78]] [[x78]].
Definition st1 (i : ident) : lookup := if bytes_eqb i [x61] then LRow row1 else LNone.
Definition st2 (i : ident) : lookup := if bytes_eqb i [x61] then LRow row2 else LNone.
Definition n (k : byte) : bytes := [k; x02; x03; x04].
Definition auth (nonce secret : bytes) : bytes := hdr 2 (x01 :: x61 :: sha1 (nonce ++ secret)).
Definition segs : list seg :=
  [(st1, [Connect 0 (n x00); Data 0 (auth (n x00) [x6b])]);
   (st2, [Connect 1 (n x01); Data 1 (auth (n x01) [x6b]); Connect 2 (n x02); Data 2 (auth (n x02) [x4b])])].
Example rotation :
  ak (conns (runs [] false segs) 0) = Some [x61] /\
  ak (conns (runs [] false segs) 1) = None /\ closing (conns (runs [] false segs) 1) = true /\
  ak (conns (runs [] false segs) 2) = Some [x61] /\ closing (conns (runs [] false segs) 2) = false.
Proof. vm_compute. repeat split. Qed.
End StoresExample.
