(* LegacyStop.v — C13, blocking Client: stop() called from the message callback (the way the model's own runs reach it;
   LegacyFacts.stop_ends_run covers stop() called from another thread while run() is blocked in recv). *)
From Coq Require Import ZArith List Bool Arith Lia.
From Coq Require Import Strings.Byte.
From HP Require Import Bytes Utf8 Sha1 Wire WireFacts Params ParamsOK LegacyClient LegacyFacts.
Import ListNotations.

Arguments next : simpl never.
Arguments readpublish : simpl never.
Arguments readerror : simpl never.
Arguments Z.eqb : simpl never.

(* the recv() that delivered the message whose callback called stop() is the last one: the rest of that read's frames
   are still handed over, then run() returns (or the reader's exception leaves it); no connection attempt follows *)
Theorem stop_in_callback_ends_run s d rest :
  lpcs s = PRecv -> lconnected s = true -> lrecv s = RData d :: rest -> lstopped (lstep s) = true ->
  let s2 := lstep (lstep s) in
  lpcs s2 = PStop /\
  exists evs, ltrace s2 = evs ++ ltrace (lstep s) /\ forallb no_attempt evs = true /\
              (In LReturn evs \/ In LCrash (ltrace (lstep s))).
Proof.
  intros Hp Hc Hr Hs. cbv zeta.
  assert (Cases : (lpcs (lstep s) = PAfterInner /\ lstopped (lstep s) = true) \/
                  (lpcs (lstep s) = PStop /\ In LCrash (ltrace (lstep s)))).
  { revert Hs. unfold lstep. rewrite Hp, Hc, Hr. cbn [negb].
    destruct (run_frames _ _) as [s3 how]. destruct how as [|[|how]].
    - destruct (lstopped s3) eqn:Es3; cbn; intros Hs; [left; auto|congruence].
    - cbn. intros Hs. left; auto.
    - cbn. intros _. right; auto. }
  set (s1 := lstep s) in *. clearbody s1.
  destruct Cases as [[Hp1 Hs1]|[Hp1 Hc1]].
  - unfold lstep. rewrite Hp1, Hs1. cbn. split; [reflexivity|]. exists [LReturn]. cbn. auto.
  - unfold lstep. rewrite Hp1. split; [exact Hp1|]. exists []. cbn. auto.
Qed.

(* such a state is reached: one publish arrives, its callback calls stop() *)
Example stop_in_callback_reachable :
  let pub := match msgpublish [x61] [x63] [x64] with Some f => f | None => [] end in
  let info := match msginfo [x68] [x01; x02; x03; x04] with Some f => f | None => [] end in
  let s := lrun 5 (linit [true] [RData info; RData pub; RTimeout] [] [[x63]] (Some 1%nat)) in
  lpcs s = PRecv /\ lconnected s = true /\ lrecv s = [RData pub; RTimeout] /\ lstopped (lstep s) = true /\
  lpcs (lstep (lstep s)) = PStop /\ hd LCrash (ltrace (lstep (lstep s))) = LReturn.
Proof. vm_compute. repeat split; reflexivity. Qed.
