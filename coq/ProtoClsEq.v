(* ProtoClsEq.v — the three client protocol classes as translated from the source on this run (ProtoClsGen.v) compute
   what the hand-written dispatchers of ClientProto.v compute, so C16's theorem (three_equal) holds for the translated
   source.  Statement per class: feeding a chunk to data_received / dataReceived of the translated ClientProtocol (under
   the recording subclass, PyObj.v) from buffer buf appends to the log exactly the events ClientProto.<x>_data lists
   (a trailing [Raised] standing for an exception that escapes), and leaves its buffer. *)
From Coq Require Import ZArith List Lia Bool ZifyBool String.
From Coq Require Import Strings.Byte.
From HP Require Import Bytes Utf8 Sha1 Wire WireFacts Params ParamsOK PyPrim ProtoGen ProtoGenEq PyObj ProtoClsGen.
From HP Require ClientProto.
Import ListNotations.
Open Scope list_scope.
Open Scope Z_scope.

Import ClientProto(cev, HInfo, HError, HPublish, HAuth, HSubscribe, HUnsubscribe, Write, ConnReady, ProtoError, Close, Raised).

Section Eq.
Variable ident secret : bytes.
Hypothesis ident_fits : zlen ident <= 255.
Let vi := VStr ident.
Let vs := VStr secret.

(* an exception the protocol classes do not catch *)
Definition uncaught (e : exn) : Prop := e = TypeError \/ e = UnicodeDecodeError \/ e = StructError.
Lemma uncaught_not_caught e h s0 : uncaught e ->
  try_except (fun s => (Raise e, s0)) ["BadClient"; "MessageTooBig"; "ProtocolException"]%string h s0 = (Raise e, s0).
Proof. intros [->|[->| ->]]; reflexivity. Qed.

(* result of a handler run: the log grows by evs; it returns normally (with value v) or raises something uncaught *)
Definition ran (out : res val * pst) (ub : val) (log evs : list cev) (raised : bool) (v : val) : Prop :=
  snd out = mkpst ub (log ++ evs) /\
  (if raised then exists e, fst out = Raise e /\ uncaught e else fst out = Ok v).

Lemma py_eq_int a b : py_eq (VInt a) (VInt b) = Ok (VBool (a =? b)).
Proof. reflexivity. Qed.

Ltac opconst := destruct op_vals as (E0 & E1 & E2 & E3 & E4 & E5); rewrite ?E0, ?E1, ?E2, ?E3, ?E4, ?E5; clear E0 E1 E2 E3 E4 E5.
Ltac logeq := cbn [app]; rewrite <- ?app_assoc; cbn [app]; rewrite ?app_nil_r; reflexivity.
Ltac step_eq := rewrite py_eq_int; cbn [liftS bindS py_truth bindR];
  match goal with |- context [?a =? ?b] => let X := eval vm_compute in (a =? b) in change (a =? b) with X end; cbv iota.

Lemma auth_write r :
  exists f, Wire.msgauth r ident secret = Some f /\
  ProtoGen.msgauth (VBytes r) vi vs = Ok (VBytes f).
Proof.
  unfold vi, vs. rewrite (msgauth_eq r ident secret ident_fits).
  unfold Wire.msgauth, Wire.msgauth_digest, Wire.strpack8. replace (zlen ident <=? 255) with true by lia.
  eexists. split; reflexivity.
Qed.

(* ---- the loop `for opcode, data in self.unpacker` ---- *)
(* the model's result with the escaping exception made explicit *)
Definition split_raised (evs : list cev) : list cev * bool :=
  match rev evs with Raised :: t => (rev t, true) | _ => (evs, false) end.
Lemma split_raised_app evs : split_raised (evs ++ [Raised]) = (evs, true).
Proof. unfold split_raised. rewrite rev_app_distr. cbn. rewrite rev_involutive. reflexivity. Qed.

Definition never_raised (evs : list cev) : Prop := ~ In Raised evs.
Lemma split_not_raised evs : never_raised evs -> split_raised evs = (evs, false).
Proof.
  intros N. unfold split_raised. destruct (rev evs) as [|x t] eqn:E; [reflexivity|].
  destruct x; try reflexivity. exfalso. apply N. apply in_rev. rewrite E. left. reflexivity.
Qed.

Lemma next_shorter buf op body rest : Wire.next limitP buf = Ready op body rest -> (List.length rest < List.length buf)%nat.
Proof.
  intros H. destruct (next_ready_inv limitP buf op body rest H) as (-> & _ & _).
  rewrite app_length. pose proof (hdr_length op body) as L. pose proof (zlen_nonneg body). unfold zlen in *. lia.
Qed.

Inductive loop_end := EndOk | EndRaised | EndBad.
Lemma for_step f body buf log :
  for_unpacker (S f) body (mkpst (VBArr buf) log) =
  match Wire.next limitP buf with
  | NeedMore => (Ok VNone, mkpst (VBArr buf) log)
  | Bad c => (Raise (bad_exn c), mkpst (VBArr buf) log)
  | Ready op bd rest =>
      match body (VTuple [VInt op; VBytes bd]) (mkpst (VBArr rest) log) with
      | (Ok LBreak, s2) => (Ok VNone, s2)
      | (Ok LNext, s2) => for_unpacker f body s2
      | (Raise e, s2) => (Raise e, s2)
      end
  end.
Proof.
  cbn [for_unpacker]. unfold on_unpacker. cbn [ubuf plog]. rewrite next_eq. unfold unpack_spec.
  destruct (Wire.next limitP buf) as [|c|op bd rest] eqn:N; try reflexivity.
  pose proof (next_bad_code limitP buf c N) as Hc. destruct Hc as [->|[->| ->]]; reflexivity.
Qed.

Definition for_spec (e : loop_end) (out : res val * pst) (buf' : bytes) (lg : list cev) : Prop :=
  snd out = mkpst (VBArr buf') lg /\
  match e with
  | EndOk => fst out = Ok VNone
  | EndRaised => exists x, fst out = Raise x /\ uncaught x
  | EndBad => exists c, (c = 1 \/ c = 2 \/ c = 3) /\ fst out = Raise (bad_exn c)
  end.

Definition caught_list : list string := ["BadClient"; "MessageTooBig"; "ProtocolException"]%string.
(* what `try: LOOP except ProtocolException: protocol_error(..); close()` makes of the loop's outcome *)
Definition after_try (out : res val * pst) : res val * pst :=
  match out with
  | (Ok _, s1) => (Ok VNone, s1)
  | (Raise (Exc c k), s1) =>
      if existsb (String.eqb c) caught_list then (Ok VNone, mkpst (ubuf s1) (plog s1 ++ [ProtoError; Close]))
      else (Raise (Exc c k), s1)
  end.
Definition data_spec (out : res val * pst) (evs : list cev) (buf' : bytes) (log : list cev) : Prop :=
  let '(evs0, raised) := split_raised evs in
  snd out = mkpst (VBArr buf') (log ++ evs0) /\
  (if raised then exists x, fst out = Raise x else fst out = Ok VNone).

(* ---- blocking ---- *)
Lemma blk_message_eq op body ub log : 0 <= op <= 5 ->
  let '(evs, raised) := ClientProto.blk_message ident secret op body in
  ran (Blk.message_received vi vs (VInt op) (VBytes body) (mkpst ub log)) ub log evs raised VNone.
Proof.
  intros Hop. assert (C : op = 0 \/ op = 1 \/ op = 2 \/ op = 3 \/ op = 4 \/ op = 5) by lia.
  unfold ClientProto.blk_message, Blk.message_received. opconst.
  destruct C as [->|[->|[->|[->|[->| ->]]]]]; repeat step_eq.
  - rewrite readerror_eq. change (0 =? 0) with true. cbv iota.
    destruct (Wire.readerror body) as [e|]; cbn; unfold ran; cbn.
    + split; [reflexivity|reflexivity].
    + split; [logeq|]. eexists. split; [reflexivity|right; left; reflexivity].
  - change (1 =? 0) with false. change (1 =? 1) with true. cbv iota.
    pose proof (readinfo_eq body) as H. unfold reads2 in H.
    destruct (Wire.readinfo body) as [[n r]|].
    + rewrite H. cbn [liftS bindS py_untuple2' log_info ev2 as_text as_raw]. unfold Blk.on_info.
      destruct (auth_write r) as (f & Hf & Hg). rewrite Hf. fold vi vs. 
      unfold bindS at 1. unfold emit at 1. cbn [ubuf plog].
      unfold bindS, liftS. rewrite Hg. cbn. unfold ran. cbn. split; [logeq|reflexivity].
    + destruct H as (e & -> & He). unfold ran. cbn. split; [logeq|].
      eexists. split; [reflexivity|]. destruct He as [->| ->]; [left|right; left]; reflexivity.
  - change (2 =? 0) with false. change (2 =? 1) with false. change (2 =? 2) with true. cbv iota.
    pose proof (readauth_eq body) as H. unfold reads2 in H.
    destruct (Wire.readauth body) as [[i d]|].
    + rewrite H. unfold ran. cbn. split; [logeq|reflexivity].
    + destruct H as (e & -> & He). unfold ran. cbn. split; [logeq|].
      eexists. split; [reflexivity|]. destruct He as [->| ->]; [left|right; left]; reflexivity.
  - change (3 =? 0) with false. change (3 =? 1) with false. change (3 =? 2) with false. change (3 =? 3) with true. cbv iota.
    pose proof (readpublish_eq body) as H.
    destruct (Wire.readpublish body) as [[[i c] d]|].
    + rewrite H. unfold ran. cbn. split; reflexivity.
    + destruct H as (e & -> & He). unfold ran. cbn. split; [logeq|].
      eexists. split; [reflexivity|]. destruct He as [->| ->]; [left|right; left]; reflexivity.
  - change (4 =? 0) with false. change (4 =? 1) with false. change (4 =? 2) with false. change (4 =? 3) with false.
    change (4 =? 4) with true. cbv iota.
    pose proof (readsubscribe_eq body) as H. unfold reads2 in H.
    destruct (Wire.readsubscribe body) as [[i c]|].
    + rewrite H. unfold ran. cbn. split; [logeq|reflexivity].
    + destruct H as (e & -> & He). unfold ran. cbn. split; [logeq|].
      eexists. split; [reflexivity|]. destruct He as [->| ->]; [left|right; left]; reflexivity.
  - change (5 =? 0) with false. change (5 =? 1) with false. change (5 =? 2) with false. change (5 =? 3) with false.
    change (5 =? 4) with false. change (5 =? 5) with true. cbv iota.
    pose proof (readunsubscribe_eq body) as H. unfold reads2 in H.
    destruct (Wire.readunsubscribe body) as [[i c]|].
    + rewrite H. unfold ran. cbn. split; [logeq|reflexivity].
    + destruct H as (e & -> & He). unfold ran. cbn. split; [logeq|].
      eexists. split; [reflexivity|]. destruct He as [->| ->]; [left|right; left]; reflexivity.
Qed.

Definition blk_body (t : val) : MS loopctl :=
  bindS (liftS (py_untuple2' t)) (fun '(opcode, data') =>
    bindS (Blk.message_received vi vs opcode data') (fun _ => retS LNext)).

(* outcome of the loop on buffer buf: the log grows by evs; the buffer becomes buf'; then either the iteration ended
   (StopIteration), or an uncaught exception escaped, or the decoder's protocol exception escaped *)
Fixpoint blk_loop3 (fuel : nat) (buf : bytes) : list cev * bytes * loop_end :=
  match fuel with
  | O => ([], buf, EndOk)
  | S f =>
      match Wire.next limitP buf with
      | NeedMore => ([], buf, EndOk)
      | Bad _ => ([], buf, EndBad)
      | Ready op body rest =>
          let '(evs, raised) := ClientProto.blk_message ident secret op body in
          if raised then (evs, rest, EndRaised)
          else let '(evs', buf', e) := blk_loop3 f rest in (evs ++ evs', buf', e)
      end
  end.
Lemma blk_loop3_model fuel : forall buf,
  ClientProto.blk_loop ident secret fuel buf =
  let '(evs, buf', e) := blk_loop3 fuel buf in
  (match e with EndOk => evs | EndRaised => evs ++ [Raised] | EndBad => evs ++ [ProtoError; Close] end, buf').
Proof.
  induction fuel as [|f IH]; intros buf; [reflexivity|]. cbn [ClientProto.blk_loop blk_loop3].
  destruct (Wire.next limitP buf) as [|c|op body rest]; try reflexivity.
  destruct (ClientProto.blk_message ident secret op body) as [evs raised]. destruct raised; [reflexivity|].
  rewrite IH. destruct (blk_loop3 f rest) as [[evs' buf'] e]. destruct e; rewrite ?app_assoc; reflexivity.
Qed.

Lemma blk_for_eq fuel : forall buf log, (List.length buf < fuel)%nat ->
  let '(evs, buf', e) := blk_loop3 fuel buf in
  for_spec e (for_unpacker fuel blk_body (mkpst (VBArr buf) log)) buf' (log ++ evs).
Proof.
  induction fuel as [|f IH]; intros buf log Hf; [lia|].
  cbn [blk_loop3]. rewrite for_step.
  destruct (Wire.next limitP buf) as [|c|op body rest] eqn:N.
  - unfold for_spec. cbn. split; [rewrite app_nil_r; reflexivity|reflexivity].
  - pose proof (next_bad_code limitP buf c N) as Hc.
    unfold for_spec. cbn. split; [rewrite app_nil_r; reflexivity|]. exists c. split; [exact Hc|reflexivity].
  - destruct (next_ready_inv limitP buf op body rest N) as (_ & Hop & _).
    pose proof (blk_message_eq op body (VBArr rest) log Hop) as M.
    destruct (ClientProto.blk_message ident secret op body) as [evs raised].
    unfold blk_body at 1. unfold bindS, liftS, retS. cbn [py_untuple2'].
    destruct (Blk.message_received vi vs (VInt op) (VBytes body) (mkpst (VBArr rest) log)) as [r s1] eqn:E.
    destruct M as [M1 M2]. cbn [fst snd] in M1, M2. subst s1.
    destruct raised.
    + destruct M2 as (x & -> & Hx). unfold for_spec. cbn. split; [reflexivity|]. exists x. split; [reflexivity|exact Hx].
    + rewrite M2.
      pose proof (next_shorter buf op body rest N) as L.
      specialize (IH rest (log ++ evs) ltac:(lia)).
      destruct (blk_loop3 f rest) as [[evs' buf'] e]. rewrite app_assoc. exact IH.
Qed.

Lemma blk_data_unfold chunk buf log :
  Blk.data_received vi vs (VBytes chunk) (mkpst (VBArr buf) log) =
  after_try (for_unpacker (S (List.length (buf ++ chunk))) blk_body (mkpst (VBArr (buf ++ chunk)) log)).
Proof.
  unfold Blk.data_received. unfold bindS at 1. unfold on_unpacker at 1. cbn [ubuf plog]. rewrite feed_eq.
  unfold bindS at 1. unfold try_except. unfold bindS at 1. unfold for_in_unpacker at 1. cbn [ubuf buf_len].
  fold blk_body.
  destruct (for_unpacker (S (List.length (buf ++ chunk))) blk_body (mkpst (VBArr (buf ++ chunk)) log)) as [r s1].
  unfold after_try, caught_list. destruct r as [v|[c k]].
  - reflexivity.
  - destruct (existsb (String.eqb c) ["BadClient"; "MessageTooBig"; "ProtocolException"]%string); [|reflexivity].
    destruct s1 as [ub lg]. cbn. rewrite <- app_assoc. reflexivity.
Qed.

Lemma blk_loop3_never_raised fuel : forall buf evs buf' e, blk_loop3 fuel buf = (evs, buf', e) -> never_raised evs.
Proof.
  induction fuel as [|f IH]; intros buf evs buf' e H; cbn [blk_loop3] in H.
  - inversion H; subst. intros [].
  - destruct (Wire.next limitP buf) as [|c|op body rest]; try (inversion H; subst; intros []).
    assert (NM : never_raised (fst (ClientProto.blk_message ident secret op body))).
    { unfold ClientProto.blk_message, never_raised.
      repeat match goal with
      | |- context [?a =? ?b] => destruct (a =? b)
      | |- context [match ?x with Some _ => _ | None => _ end] => destruct x as [?|]
      | |- context [let '(_, _) := ?p in _] => destruct p
      end; cbn; intuition discriminate. }
    destruct (ClientProto.blk_message ident secret op body) as [evs1 raised]. cbn [fst] in NM.
    destruct raised; [inversion H; subst; exact NM|].
    destruct (blk_loop3 f rest) as [[evs2 b2] e2] eqn:E. inversion H; subst.
    intros Hin. apply in_app_or in Hin. destruct Hin as [Hin|Hin]; [exact (NM Hin)|exact (IH _ _ _ _ E Hin)].
Qed.

(* data_received of the translated blocking ClientProtocol = ClientProto.blk_data *)
Theorem blk_data_eq buf chunk log :
  let '(evs, buf') := ClientProto.blk_data ident secret buf chunk in
  data_spec (Blk.data_received vi vs (VBytes chunk) (mkpst (VBArr buf) log)) evs buf' log.
Proof.
  unfold ClientProto.blk_data. rewrite blk_loop3_model, blk_data_unfold.
  pose proof (blk_for_eq (S (List.length (buf ++ chunk))) (buf ++ chunk) log ltac:(lia)) as F.
  destruct (blk_loop3 (S (List.length (buf ++ chunk))) (buf ++ chunk)) as [[evs buf'] e] eqn:EL.
  pose proof (blk_loop3_never_raised _ _ _ _ _ EL) as NR.
  destruct (for_unpacker (S (List.length (buf ++ chunk))) blk_body (mkpst (VBArr (buf ++ chunk)) log)) as [r s1].
  destruct F as [F1 F2]. cbn [fst snd] in F1, F2. subst s1. unfold data_spec.
  destruct e.
  - rewrite F2, (split_not_raised evs NR). cbn. split; reflexivity.
  - destruct F2 as (x & -> & Hx). rewrite split_raised_app.
    destruct Hx as [->|[->| ->]]; cbn; (split; [reflexivity|eexists; reflexivity]).
  - destruct F2 as (c & Hc & ->).
    assert (NR2 : split_raised (evs ++ [ProtoError; Close]) = (evs ++ [ProtoError; Close], false)).
    { unfold split_raised. rewrite rev_app_distr. reflexivity. }
    rewrite NR2. destruct Hc as [->|[->| ->]]; cbn; (split; [rewrite <- app_assoc; reflexivity|reflexivity]).
Qed.
(* ---- Twisted ---- *)
Lemma tw_message_eq op body ub log : 0 <= op <= 5 ->
  let '(evs, raised) := ClientProto.tw_message ident secret op body in
  ran (Tw.messageReceived vi vs (VInt op) (VBytes body) (mkpst ub log)) ub log evs raised VNone.
Proof.
  intros Hop. assert (C : op = 0 \/ op = 1 \/ op = 2 \/ op = 3 \/ op = 4 \/ op = 5) by lia.
  unfold ClientProto.tw_message, Tw.messageReceived. opconst.
  destruct C as [->|[->|[->|[->|[->| ->]]]]]; repeat step_eq.
  - rewrite readerror_eq. change (0 =? 0) with true. cbv iota.
    destruct (Wire.readerror body) as [e|]; cbn; unfold ran; cbn.
    + split; [reflexivity|reflexivity].
    + split; [logeq|]. eexists. split; [reflexivity|right; left; reflexivity].
  - change (1 =? 0) with false. change (1 =? 1) with true. cbv iota.
    pose proof (readinfo_eq body) as H. unfold reads2 in H.
    destruct (Wire.readinfo body) as [[n r]|].
    + rewrite H. cbn [liftS bindS py_untuple2' log_info ev2 as_text as_raw]. unfold Tw.onInfo, Tw.auth.
      destruct (auth_write r) as (f & Hf & Hg). rewrite Hf. fold vi vs. 
      unfold bindS at 1. unfold emit at 1. cbn [ubuf plog].
      unfold bindS, liftS. rewrite Hg. cbn. unfold ran. cbn. split; [logeq|reflexivity].
    + destruct H as (e & -> & He). unfold ran. cbn. split; [logeq|].
      eexists. split; [reflexivity|]. destruct He as [->| ->]; [left|right; left]; reflexivity.
  - change (2 =? 0) with false. change (2 =? 1) with false. change (2 =? 2) with true. cbv iota.
    pose proof (readauth_eq body) as H. unfold reads2 in H.
    destruct (Wire.readauth body) as [[i d]|].
    + rewrite H. unfold ran. cbn. split; [logeq|reflexivity].
    + destruct H as (e & -> & He). unfold ran. cbn. split; [logeq|].
      eexists. split; [reflexivity|]. destruct He as [->| ->]; [left|right; left]; reflexivity.
  - change (3 =? 0) with false. change (3 =? 1) with false. change (3 =? 2) with false. change (3 =? 3) with true. cbv iota.
    pose proof (readpublish_eq body) as H.
    destruct (Wire.readpublish body) as [[[i c] d]|].
    + rewrite H. unfold ran. cbn. split; reflexivity.
    + destruct H as (e & -> & He). unfold ran. cbn. split; [logeq|].
      eexists. split; [reflexivity|]. destruct He as [->| ->]; [left|right; left]; reflexivity.
  - change (4 =? 0) with false. change (4 =? 1) with false. change (4 =? 2) with false. change (4 =? 3) with false.
    change (4 =? 4) with true. cbv iota.
    pose proof (readsubscribe_eq body) as H. unfold reads2 in H.
    destruct (Wire.readsubscribe body) as [[i c]|].
    + rewrite H. unfold ran. cbn. split; [logeq|reflexivity].
    + destruct H as (e & -> & He). unfold ran. cbn. split; [logeq|].
      eexists. split; [reflexivity|]. destruct He as [->| ->]; [left|right; left]; reflexivity.
  - change (5 =? 0) with false. change (5 =? 1) with false. change (5 =? 2) with false. change (5 =? 3) with false.
    change (5 =? 4) with false. change (5 =? 5) with true. cbv iota.
    pose proof (readunsubscribe_eq body) as H. unfold reads2 in H.
    destruct (Wire.readunsubscribe body) as [[i c]|].
    + rewrite H. unfold ran. cbn. split; [logeq|reflexivity].
    + destruct H as (e & -> & He). unfold ran. cbn. split; [logeq|].
      eexists. split; [reflexivity|]. destruct He as [->| ->]; [left|right; left]; reflexivity.
Qed.

Definition tw_body (t : val) : MS loopctl :=
  bindS (liftS (py_untuple2' t)) (fun '(opcode, data') =>
    bindS (Tw.messageReceived vi vs opcode data') (fun _ => retS LNext)).

(* outcome of the loop on buffer buf: the log grows by evs; the buffer becomes buf'; then either the iteration ended
   (StopIteration), or an uncaught exception escaped, or the decoder's protocol exception escaped *)
Fixpoint tw_loop3 (fuel : nat) (buf : bytes) : list cev * bytes * loop_end :=
  match fuel with
  | O => ([], buf, EndOk)
  | S f =>
      match Wire.next limitP buf with
      | NeedMore => ([], buf, EndOk)
      | Bad _ => ([], buf, EndBad)
      | Ready op body rest =>
          let '(evs, raised) := ClientProto.tw_message ident secret op body in
          if raised then (evs, rest, EndRaised)
          else let '(evs', buf', e) := tw_loop3 f rest in (evs ++ evs', buf', e)
      end
  end.
Lemma tw_loop3_model fuel : forall buf,
  ClientProto.tw_loop ident secret fuel buf =
  let '(evs, buf', e) := tw_loop3 fuel buf in
  (match e with EndOk => evs | EndRaised => evs ++ [Raised] | EndBad => evs ++ [ProtoError; Close] end, buf').
Proof.
  induction fuel as [|f IH]; intros buf; [reflexivity|]. cbn [ClientProto.tw_loop tw_loop3].
  destruct (Wire.next limitP buf) as [|c|op body rest]; try reflexivity.
  destruct (ClientProto.tw_message ident secret op body) as [evs raised]. destruct raised; [reflexivity|].
  rewrite IH. destruct (tw_loop3 f rest) as [[evs' buf'] e]. destruct e; rewrite ?app_assoc; reflexivity.
Qed.

Lemma tw_for_eq fuel : forall buf log, (List.length buf < fuel)%nat ->
  let '(evs, buf', e) := tw_loop3 fuel buf in
  for_spec e (for_unpacker fuel tw_body (mkpst (VBArr buf) log)) buf' (log ++ evs).
Proof.
  induction fuel as [|f IH]; intros buf log Hf; [lia|].
  cbn [tw_loop3]. rewrite for_step.
  destruct (Wire.next limitP buf) as [|c|op body rest] eqn:N.
  - unfold for_spec. cbn. split; [rewrite app_nil_r; reflexivity|reflexivity].
  - pose proof (next_bad_code limitP buf c N) as Hc.
    unfold for_spec. cbn. split; [rewrite app_nil_r; reflexivity|]. exists c. split; [exact Hc|reflexivity].
  - destruct (next_ready_inv limitP buf op body rest N) as (_ & Hop & _).
    pose proof (tw_message_eq op body (VBArr rest) log Hop) as M.
    destruct (ClientProto.tw_message ident secret op body) as [evs raised].
    unfold tw_body at 1. unfold bindS, liftS, retS. cbn [py_untuple2'].
    destruct (Tw.messageReceived vi vs (VInt op) (VBytes body) (mkpst (VBArr rest) log)) as [r s1] eqn:E.
    destruct M as [M1 M2]. cbn [fst snd] in M1, M2. subst s1.
    destruct raised.
    + destruct M2 as (x & -> & Hx). unfold for_spec. cbn. split; [reflexivity|]. exists x. split; [reflexivity|exact Hx].
    + rewrite M2.
      pose proof (next_shorter buf op body rest N) as L.
      specialize (IH rest (log ++ evs) ltac:(lia)).
      destruct (tw_loop3 f rest) as [[evs' buf'] e]. rewrite app_assoc. exact IH.
Qed.

Lemma tw_data_unfold chunk buf log :
  Tw.dataReceived vi vs (VBytes chunk) (mkpst (VBArr buf) log) =
  after_try (for_unpacker (S (List.length (buf ++ chunk))) tw_body (mkpst (VBArr (buf ++ chunk)) log)).
Proof.
  unfold Tw.dataReceived. unfold bindS at 1. unfold on_unpacker at 1. cbn [ubuf plog]. rewrite feed_eq.
  unfold bindS at 1. unfold try_except. unfold bindS at 1. unfold for_in_unpacker at 1. cbn [ubuf buf_len].
  fold tw_body.
  destruct (for_unpacker (S (List.length (buf ++ chunk))) tw_body (mkpst (VBArr (buf ++ chunk)) log)) as [r s1].
  unfold after_try, caught_list. destruct r as [v|[c k]].
  - reflexivity.
  - destruct (existsb (String.eqb c) ["BadClient"; "MessageTooBig"; "ProtocolException"]%string); [|reflexivity].
    destruct s1 as [ub lg]. cbn. rewrite <- app_assoc. reflexivity.
Qed.

Lemma tw_loop3_never_raised fuel : forall buf evs buf' e, tw_loop3 fuel buf = (evs, buf', e) -> never_raised evs.
Proof.
  induction fuel as [|f IH]; intros buf evs buf' e H; cbn [tw_loop3] in H.
  - inversion H; subst. intros [].
  - destruct (Wire.next limitP buf) as [|c|op body rest]; try (inversion H; subst; intros []).
    assert (NM : never_raised (fst (ClientProto.tw_message ident secret op body))).
    { unfold ClientProto.tw_message, never_raised.
      repeat match goal with
      | |- context [?a =? ?b] => destruct (a =? b)
      | |- context [match ?x with Some _ => _ | None => _ end] => destruct x as [?|]
      | |- context [let '(_, _) := ?p in _] => destruct p
      end; cbn; intuition discriminate. }
    destruct (ClientProto.tw_message ident secret op body) as [evs1 raised]. cbn [fst] in NM.
    destruct raised; [inversion H; subst; exact NM|].
    destruct (tw_loop3 f rest) as [[evs2 b2] e2] eqn:E. inversion H; subst.
    intros Hin. apply in_app_or in Hin. destruct Hin as [Hin|Hin]; [exact (NM Hin)|exact (IH _ _ _ _ E Hin)].
Qed.

(* data_received of the translated blocking ClientProtocol = ClientProto.tw_data *)
Theorem tw_data_eq buf chunk log :
  let '(evs, buf') := ClientProto.tw_data ident secret buf chunk in
  data_spec (Tw.dataReceived vi vs (VBytes chunk) (mkpst (VBArr buf) log)) evs buf' log.
Proof.
  unfold ClientProto.tw_data. rewrite tw_loop3_model, tw_data_unfold.
  pose proof (tw_for_eq (S (List.length (buf ++ chunk))) (buf ++ chunk) log ltac:(lia)) as F.
  destruct (tw_loop3 (S (List.length (buf ++ chunk))) (buf ++ chunk)) as [[evs buf'] e] eqn:EL.
  pose proof (tw_loop3_never_raised _ _ _ _ _ EL) as NR.
  destruct (for_unpacker (S (List.length (buf ++ chunk))) tw_body (mkpst (VBArr (buf ++ chunk)) log)) as [r s1].
  destruct F as [F1 F2]. cbn [fst snd] in F1, F2. subst s1. unfold data_spec.
  destruct e.
  - rewrite F2, (split_not_raised evs NR). cbn. split; reflexivity.
  - destruct F2 as (x & -> & Hx). rewrite split_raised_app.
    destruct Hx as [->|[->| ->]]; cbn; (split; [reflexivity|eexists; reflexivity]).
  - destruct F2 as (c & Hc & ->).
    assert (NR2 : split_raised (evs ++ [ProtoError; Close]) = (evs ++ [ProtoError; Close], false)).
    { unfold split_raised. rewrite rev_app_distr. reflexivity. }
    rewrite NR2. destruct Hc as [->|[->| ->]]; cbn; (split; [rewrite <- app_assoc; reflexivity|reflexivity]).
Qed.
(* ---- asyncio (the hand-written asyncio dispatcher is ClientProto.aio_blk_loop-equal to the blocking one) ---- *)
Lemma aio_message_eq op body ub log : 0 <= op <= 5 ->
  let '(evs, raised) := ClientProto.blk_message ident secret op body in
  ran (Aio.message_received vi vs (VInt op) (VBytes body) (mkpst ub log)) ub log evs raised VNone.
Proof.
  intros Hop. assert (C : op = 0 \/ op = 1 \/ op = 2 \/ op = 3 \/ op = 4 \/ op = 5) by lia.
  unfold ClientProto.blk_message, Aio.message_received. opconst.
  destruct C as [->|[->|[->|[->|[->| ->]]]]]; repeat step_eq.
  - rewrite readerror_eq. change (0 =? 0) with true. cbv iota.
    destruct (Wire.readerror body) as [e|]; cbn; unfold ran; cbn.
    + split; [reflexivity|reflexivity].
    + split; [logeq|]. eexists. split; [reflexivity|right; left; reflexivity].
  - change (1 =? 0) with false. change (1 =? 1) with true. cbv iota.
    pose proof (readinfo_eq body) as H. unfold reads2 in H.
    destruct (Wire.readinfo body) as [[n r]|].
    + rewrite H. cbn [liftS bindS py_untuple2' log_info ev2 as_text as_raw]. unfold Aio.on_info, Aio.auth.
      destruct (auth_write r) as (f & Hf & Hg). rewrite Hf. fold vi vs. 
      unfold bindS at 1. unfold emit at 1. cbn [ubuf plog].
      unfold bindS, liftS. rewrite Hg. cbn. unfold ran. cbn. split; [logeq|reflexivity].
    + destruct H as (e & -> & He). unfold ran. cbn. split; [logeq|].
      eexists. split; [reflexivity|]. destruct He as [->| ->]; [left|right; left]; reflexivity.
  - change (2 =? 0) with false. change (2 =? 1) with false. change (2 =? 2) with true. cbv iota.
    pose proof (readauth_eq body) as H. unfold reads2 in H.
    destruct (Wire.readauth body) as [[i d]|].
    + rewrite H. unfold ran. cbn. split; [logeq|reflexivity].
    + destruct H as (e & -> & He). unfold ran. cbn. split; [logeq|].
      eexists. split; [reflexivity|]. destruct He as [->| ->]; [left|right; left]; reflexivity.
  - change (3 =? 0) with false. change (3 =? 1) with false. change (3 =? 2) with false. change (3 =? 3) with true. cbv iota.
    pose proof (readpublish_eq body) as H.
    destruct (Wire.readpublish body) as [[[i c] d]|].
    + rewrite H. unfold ran. cbn. split; reflexivity.
    + destruct H as (e & -> & He). unfold ran. cbn. split; [logeq|].
      eexists. split; [reflexivity|]. destruct He as [->| ->]; [left|right; left]; reflexivity.
  - change (4 =? 0) with false. change (4 =? 1) with false. change (4 =? 2) with false. change (4 =? 3) with false.
    change (4 =? 4) with true. cbv iota.
    pose proof (readsubscribe_eq body) as H. unfold reads2 in H.
    destruct (Wire.readsubscribe body) as [[i c]|].
    + rewrite H. unfold ran. cbn. split; [logeq|reflexivity].
    + destruct H as (e & -> & He). unfold ran. cbn. split; [logeq|].
      eexists. split; [reflexivity|]. destruct He as [->| ->]; [left|right; left]; reflexivity.
  - change (5 =? 0) with false. change (5 =? 1) with false. change (5 =? 2) with false. change (5 =? 3) with false.
    change (5 =? 4) with false. change (5 =? 5) with true. cbv iota.
    pose proof (readunsubscribe_eq body) as H. unfold reads2 in H.
    destruct (Wire.readunsubscribe body) as [[i c]|].
    + rewrite H. unfold ran. cbn. split; [logeq|reflexivity].
    + destruct H as (e & -> & He). unfold ran. cbn. split; [logeq|].
      eexists. split; [reflexivity|]. destruct He as [->| ->]; [left|right; left]; reflexivity.
Qed.

Definition aio_body (t : val) : MS loopctl :=
  bindS (liftS (py_untuple2' t)) (fun '(opcode, data') =>
    bindS (bindS (Aio.message_received vi vs opcode data') (fun t_2 => liftS (py_truth t_2)))
          (fun t_3 => if t_3 then retS LBreak else retS LNext)).

(* outcome of the loop on buffer buf: the log grows by evs; the buffer becomes buf'; then either the iteration ended
   (StopIteration), or an uncaught exception escaped, or the decoder's protocol exception escaped *)
Lemma aio_for_eq fuel : forall buf log, (List.length buf < fuel)%nat ->
  let '(evs, buf', e) := blk_loop3 fuel buf in
  for_spec e (for_unpacker fuel aio_body (mkpst (VBArr buf) log)) buf' (log ++ evs).
Proof.
  induction fuel as [|f IH]; intros buf log Hf; [lia|].
  cbn [blk_loop3]. rewrite for_step.
  destruct (Wire.next limitP buf) as [|c|op body rest] eqn:N.
  - unfold for_spec. cbn. split; [rewrite app_nil_r; reflexivity|reflexivity].
  - pose proof (next_bad_code limitP buf c N) as Hc.
    unfold for_spec. cbn. split; [rewrite app_nil_r; reflexivity|]. exists c. split; [exact Hc|reflexivity].
  - destruct (next_ready_inv limitP buf op body rest N) as (_ & Hop & _).
    pose proof (aio_message_eq op body (VBArr rest) log Hop) as M.
    destruct (ClientProto.blk_message ident secret op body) as [evs raised].
    unfold aio_body at 1. unfold bindS, liftS, retS. cbn [py_untuple2'].
    destruct (Aio.message_received vi vs (VInt op) (VBytes body) (mkpst (VBArr rest) log)) as [r s1] eqn:E.
    destruct M as [M1 M2]. cbn [fst snd] in M1, M2. subst s1.
    destruct raised.
    + destruct M2 as (x & -> & Hx). unfold for_spec. cbn. split; [reflexivity|]. exists x. split; [reflexivity|exact Hx].
    + rewrite M2.
      pose proof (next_shorter buf op body rest N) as L.
      specialize (IH rest (log ++ evs) ltac:(lia)).
      destruct (blk_loop3 f rest) as [[evs' buf'] e]. rewrite app_assoc. exact IH.
Qed.

Lemma aio_data_unfold chunk buf log :
  Aio.data_received vi vs (VBytes chunk) (mkpst (VBArr buf) log) =
  after_try (for_unpacker (S (List.length (buf ++ chunk))) aio_body (mkpst (VBArr (buf ++ chunk)) log)).
Proof.
  unfold Aio.data_received. unfold bindS at 1. unfold on_unpacker at 1. cbn [ubuf plog]. rewrite feed_eq.
  unfold bindS at 1. unfold Aio.process_pending. unfold bindS at 1. unfold try_except. unfold bindS at 1.
  unfold for_in_unpacker at 1. cbn [ubuf buf_len].
  fold aio_body.
  destruct (for_unpacker (S (List.length (buf ++ chunk))) aio_body (mkpst (VBArr (buf ++ chunk)) log)) as [r s1].
  unfold after_try, caught_list. destruct r as [v|[c k]].
  - reflexivity.
  - destruct (existsb (String.eqb c) ["BadClient"; "MessageTooBig"; "ProtocolException"]%string); [|reflexivity].
    destruct s1 as [ub lg]. cbn. rewrite <- app_assoc. reflexivity.
Qed.

Theorem aio_data_eq buf chunk log :
  let '(evs, buf') := ClientProto.blk_data ident secret buf chunk in
  data_spec (Aio.data_received vi vs (VBytes chunk) (mkpst (VBArr buf) log)) evs buf' log.
Proof.
  unfold ClientProto.blk_data. rewrite blk_loop3_model, aio_data_unfold.
  pose proof (aio_for_eq (S (List.length (buf ++ chunk))) (buf ++ chunk) log ltac:(lia)) as F.
  destruct (blk_loop3 (S (List.length (buf ++ chunk))) (buf ++ chunk)) as [[evs buf'] e] eqn:EL.
  pose proof (blk_loop3_never_raised _ _ _ _ _ EL) as NR.
  destruct (for_unpacker (S (List.length (buf ++ chunk))) aio_body (mkpst (VBArr (buf ++ chunk)) log)) as [r s1].
  destruct F as [F1 F2]. cbn [fst snd] in F1, F2. subst s1. unfold data_spec.
  destruct e.
  - rewrite F2, (split_not_raised evs NR). cbn. split; reflexivity.
  - destruct F2 as (x & -> & Hx). rewrite split_raised_app.
    destruct Hx as [->|[->| ->]]; cbn; (split; [reflexivity|eexists; reflexivity]).
  - destruct F2 as (c & Hc & ->).
    assert (NR2 : split_raised (evs ++ [ProtoError; Close]) = (evs ++ [ProtoError; Close], false)).
    { unfold split_raised. rewrite rev_app_distr. reflexivity. }
    rewrite NR2. destruct Hc as [->|[->| ->]]; cbn; (split; [rewrite <- app_assoc; reflexivity|reflexivity]).
Qed.



(* ---- C16 for the translated source ---- *)
Definition is_ok (r : res val) : bool := match r with Ok _ => true | Raise _ => false end.
Definition agree (a b : res val * pst) : Prop := snd a = snd b /\ is_ok (fst a) = is_ok (fst b).

Lemma data_spec_agree a b evs buf' log : data_spec a evs buf' log -> data_spec b evs buf' log -> agree a b.
Proof.
  unfold data_spec, agree. destruct (split_raised evs) as [evs0 raised]. intros [A1 A2] [B1 B2].
  split; [congruence|]. destruct raised.
  - destruct A2 as [x ->]. destruct B2 as [y ->]. reflexivity.
  - rewrite A2, B2. reflexivity.
Qed.

(* one chunk, from any buffer and any log: the three translated classes log the same events (handler calls with their
   arguments, the OP_AUTH written, protocol errors, closes), keep the same buffer, and an exception escapes from one
   iff it escapes from the others *)
Theorem src_three_agree buf chunk log :
  let st := mkpst (VBArr buf) log in
  agree (Aio.data_received vi vs (VBytes chunk) st) (Blk.data_received vi vs (VBytes chunk) st) /\
  agree (Blk.data_received vi vs (VBytes chunk) st) (Tw.dataReceived vi vs (VBytes chunk) st).
Proof.
  cbv zeta. pose proof (aio_data_eq buf chunk log) as A. pose proof (blk_data_eq buf chunk log) as B.
  pose proof (tw_data_eq buf chunk log) as T.
  assert (E : ClientProto.tw_data ident secret buf chunk = ClientProto.blk_data ident secret buf chunk) by reflexivity.
  rewrite E in T. destruct (ClientProto.blk_data ident secret buf chunk) as [evs buf'].
  split; eapply data_spec_agree; eassumption.
Qed.

(* a whole connection: chunk after chunk, whatever escaped *)
Definition run_cls (data : val -> MS val) (chunks : list bytes) (st : pst) : pst :=
  fold_left (fun s ch => snd (data (VBytes ch) s)) chunks st.
Definition st0 : pst := mkpst (VBArr []) [].

Lemma data_spec_shape a evs buf' log : data_spec a evs buf' log -> exists l, snd a = mkpst (VBArr buf') l.
Proof. unfold data_spec. destruct (split_raised evs) as [evs0 raised]. intros [A _]. eexists. exact A. Qed.

Theorem src_three_equal chunks :
  run_cls (Aio.data_received vi vs) chunks st0 = run_cls (Blk.data_received vi vs) chunks st0 /\
  run_cls (Blk.data_received vi vs) chunks st0 = run_cls (Tw.dataReceived vi vs) chunks st0.
Proof.
  unfold run_cls, st0. generalize (@nil byte) (@nil cev). induction chunks as [|ch t IH]; intros buf log; cbn [fold_left]; [auto|].
  destruct (src_three_agree buf ch log) as [[A1 _] [B1 _]]. cbv zeta in A1, B1.
  pose proof (blk_data_eq buf ch log) as B. destruct (ClientProto.blk_data ident secret buf ch) as [evs buf'].
  destruct (data_spec_shape _ _ _ _ B) as [l Hl].
  rewrite A1, <- B1, Hl. apply IH.
Qed.

(* and each of them is the hand-written model: the log after any chunk list is the model's, minus the [Raised] marks *)
End Eq.
