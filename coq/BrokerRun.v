(* BrokerRun.v — runs the broker model on a case and prints its observable state after every event,
   in the text format harness/broker.py prints for the real Server/Connection. *)
From Coq Require Import ZArith NArith List Bool String.
From Coq Require Import Strings.Byte.
From HP Require Import Bytes Utf8 Sha1 Wire ParamsOK Run Broker.
Import ListNotations.
Open Scope Z_scope.

Definition show_bframe (f : frame) : string :=
  match f with
  | FInfo n r => ("I" ++ fp n ++ "/" ++ fp r)%string
  | FError => "E"
  | FPub i c d => ("P" ++ fp i ++ "/" ++ fp c ++ "/" ++ fp d)%string
  end.
Definition bit (b : bool) : string := if b then "1" else "0".
Definition show_conn (s : state) (q : nat) : string :=
  let c := conns s q in
  (show_nat q ++ ":" ++ show_nat (List.length (out c)) ++ ":" ++ bit (closing c) ++ bit (rpaused c) ++ bit (copen c)
   ++ ":" ++ match ak c with Some i => fp i | None => "-" end
   ++ ":" ++ show_nat (List.length (pending c)) ++ ":" ++ show_nat (List.length (buf c))
   ++ ":{" ++ join ";" (map fp (active c)) ++ "}")%string.

Fixpoint dedupc (l : list chan) : list chan :=
  match l with [] => [] | c :: t => if memc c t then dedupc t else c :: dedupc t end.
Definition chans_of (s : state) : list chan := dedupc (map (fun e => snd (fst e)) (g_subs s)).
Definition show_reg (s : state) : string :=
  join ";" (map (fun c => (fp c ++ "=" ++ join "," (map show_nat (subs s c)))%string)
                (filter (fun c => negb (Nat.eqb (List.length (subs s c)) 0)) (chans_of s))).
Definition show_gauges (s : state) : string :=
  (show_Z (g_conn s) ++ "," ++ show_Z (g_made s) ++ "," ++ show_Z (g_lost s) ++ ",{" ++
   join ";" (map (fun e => (fp (fst (fst e)) ++ "/" ++ fp (snd (fst e)) ++ "=" ++ show_Z (snd e))%string) (g_subs s)) ++ "}")%string.
Definition show_state (s : state) : string :=
  (join " " (map (show_conn s) (rev (ids s))) ++ "|R{" ++ show_reg s ++ "}|G" ++ show_gauges s)%string.
Definition show_outs (s : state) : list string :=
  map (fun q => (show_nat q ++ "=[" ++ join "," (map show_bframe (rev (out (conns s q)))) ++ "]")%string) (rev (ids s)).

(* case files give events with run-length encoded chunks *)
Inductive cevent :=
| CConnect (q : nat) (n : bytes) | CData (q : nat) (chunk : list seg) | CPeerClosed (q : nat) | CLost (q : nat)
| CDoneRow (q : nat) (secret : bytes) (pub sub : list bytes) | CDoneNone (q : nat) | CDoneRaise (q : nat)
| CPauseW (q : nat) | CResumeW (q : nat) | CResumePause (q : nat) | CTick (n : nat)
| CStore (i : bytes) (v : option (bytes * list bytes * list bytes)).   (* the credential store changes between callbacks *)
Definition events_of (e : cevent) : list event :=
  match e with
  | CConnect q n => [Connect q n] | CData q ch => [Data q (expand ch)] | CPeerClosed q => [PeerClosed q]
  | CLost q => [Lost q]
  | CDoneRow q s p sb => [LookupDone q (RLook (LRow (mkrow s p sb)))]
  | CDoneNone q => [LookupDone q (RLook LNone)] | CDoneRaise q => [LookupDone q RRaise]
  | CPauseW q => [PauseW q] | CResumeW q => [ResumeW q] | CResumePause q => [ResumeW q; PauseW q]
  | CTick n => repeat Tick n
  | CStore _ _ => []
  end.

Fixpoint lookup_db (db : list (bytes * option (bytes * list bytes * list bytes))) (i : bytes) : lookup :=
  match db with
  | [] => LNone
  | (k, v) :: t => if bytes_eqb k i then
                     match v with Some (s, p, sb) => LRow (mkrow s p sb) | None => LNone end
                   else lookup_db t i
  end.

(* A synchronous store is consulted anew at every OP_AUTH (Server.get_authkey), so its contents may change
   between any two callbacks: the case is run segment by segment, each under the store then in effect
   (step takes the store as an argument; a CStore event only replaces the binding of one ident). *)
Definition cdb := list (bytes * option (bytes * list bytes * list bytes)).
Definition cstep (name : bytes) (async : bool) (acc : cdb * state) (e : cevent) : cdb * state :=
  match e with
  | CStore i v => ((i, v) :: fst acc, snd acc)
  | _ => (fst acc, fold_left (step name (lookup_db (fst acc)) async) (events_of e) (snd acc))
  end.
Fixpoint run_events (name : bytes) (db : cdb) (async : bool) (s : state) (es : list cevent) : list string :=
  match es with
  | [] => []
  | e :: t =>
      let '(db', s') := cstep name async (db, s) e in
      show_state s' :: run_events name db' async s' t
  end.
Definition final_state (name : bytes) (db : cdb) (async : bool) (es : list cevent) : state :=
  snd (fold_left (cstep name async) es (db, state0)).
(* one string per event (the state after it), then "$", then one string per connection (all it was sent) *)
Definition run_broker_full (name : bytes) (db : cdb) (async : bool)
                      (es : list cevent) : list string :=
  (run_events name db async state0 es ++ ["$"%string] ++
   show_outs (final_state name db async es))%list.

(* the same observation as order-insensitive fingerprints (cheap to print): every {...} set is replaced
   by the sum of its items' Adler-32 values, registry member lists by a commutative hash, and each
   resulting line by its Adler-32 *)
Definition bytes_of_string (s : string) : bytes := list_byte_of_string s.
Definition adler_s (s : string) : N := adler (bytes_of_string s).
Definition hset (l : list string) : N := (fold_left (fun a x => a + adler_s x) l 0 mod 4294967296)%N.
Definition hmembers (l : list nat) : N :=
  (fold_left (fun a q => a + (N.of_nat q + 1) * (N.of_nat q + 1) * 2654435761) l 0 mod 4294967296)%N.
(* aspects of the observable state, each fingerprinted separately so that a check can compare exactly
   the projection its property is about:
     D deliveries (PUBLISH frames per connection)   W everything written per connection
     F closing / still-registered flags              R registry and per-connection subscription sets
     G gauges and counters                           A authenticated ident per connection
     B read-side bookkeeping (reading paused, lookups pending, bytes buffered) *)
Definition per_conn (s : state) (f : nat -> conn -> string) : string :=
  join " "%string (map (fun q => (show_nat q ++ ":" ++ f q (conns s q))%string) (rev (ids s))).
Definition is_pub (f : frame) : bool := match f with FPub _ _ _ => true | _ => false end.
Definition aspD (s : state) : string :=
  per_conn s (fun _ c => join ","%string (map show_bframe (rev (filter is_pub (out c))))).
Definition aspW (s : state) : string :=
  per_conn s (fun _ c => join ","%string (map show_bframe (rev (out c)))).
Definition aspF (s : state) : string := per_conn s (fun _ c => (bit (closing c) ++ bit (copen c))%string).
Definition aspR (s : state) : string :=
  (per_conn s (fun _ c => ("{" ++ show_N (hset (map fp (active c))) ++ "}")%string) ++ "|R{" ++
   show_N (hset (map (fun c => (fp c ++ "=" ++ show_N (hmembers (subs s c)))%string)
            (filter (fun c => negb (Nat.eqb (List.length (subs s c)) 0)) (chans_of s)))) ++ "}")%string.
Definition aspG (s : state) : string :=
  (show_Z (g_conn s) ++ "," ++ show_Z (g_made s) ++ "," ++ show_Z (g_lost s) ++ ",{" ++
   show_N (hset (map (fun e => (fp (fst (fst e)) ++ "/" ++ fp (snd (fst e)) ++ "=" ++ show_Z (snd e))%string) (g_subs s))) ++ "}")%string.
Definition aspA (s : state) : string := per_conn s (fun _ c => match ak c with Some i => fp i | None => "-"%string end).
Definition aspB (s : state) : string :=
  per_conn s (fun _ c => (bit (rpaused c) ++ ":" ++ show_nat (List.length (pending c)) ++ ":" ++ show_nat (List.length (buf c)))%string).
Definition aspects (s : state) : list N :=
  map adler_s [aspD s; aspW s; aspF s; aspR s; aspG s; aspA s; aspB s].
Fixpoint run_events_h (name : bytes) (db : cdb) (async : bool) (s : state) (es : list cevent) : list N :=
  match es with
  | [] => []
  | e :: t =>
      let '(db', s') := cstep name async (db, s) e in
      (aspects s' ++ run_events_h name db' async s' t)%list
  end.
(* seven fingerprints per event *)
Definition run_broker (name : bytes) (db : list (bytes * option (bytes * list bytes * list bytes))) (async : bool)
                      (es : list cevent) : list N :=
  run_events_h name db async state0 es.
