(* BrokerLemmas.v — list/map lemmas used by the broker proofs. *)
From Coq Require Import ZArith List Bool Arith Lia.
From HP Require Import Bytes Broker BrokerSpec.
Import ListNotations.

Lemma upd_same {A} (f : nat -> A) k v : upd f k v k = v.
Proof. unfold upd. rewrite Nat.eqb_refl. reflexivity. Qed.
Lemma upd_other {A} (f : nat -> A) k v x : x <> k -> upd f k v x = f x.
Proof. unfold upd. intros H. destruct (Nat.eqb_spec x k); congruence. Qed.
Lemma updc_same {A} (f : chan -> A) k v : updc f k v k = v.
Proof. unfold updc. rewrite bytes_eqb_refl. reflexivity. Qed.
Lemma updc_other {A} (f : chan -> A) k v x : x <> k -> updc f k v x = f x.
Proof. unfold updc. intros H. destruct (bytes_eqb x k) eqn:E; [apply bytes_eqb_eq in E; congruence|reflexivity]. Qed.

Lemma bytes_eqb_spec a b : reflect (a = b) (bytes_eqb a b).
Proof. destruct (bytes_eqb a b) eqn:E; constructor; [apply bytes_eqb_eq|apply bytes_eqb_neq]; exact E. Qed.

Lemma memc_In c l : memc c l = true <-> In c l.
Proof.
  unfold memc. rewrite existsb_exists. split.
  - intros [y [Hy E]]. apply bytes_eqb_eq in E. subst. exact Hy.
  - intros H. exists c. split; [exact H|apply bytes_eqb_refl].
Qed.
Lemma memc_false c l : memc c l = false <-> ~ In c l.
Proof. rewrite <- memc_In. destruct (memc c l); split; congruence. Qed.
Lemma memn_In x l : memn x l = true <-> In x l.
Proof.
  unfold memn. rewrite existsb_exists. split.
  - intros [y [Hy E]]. apply Nat.eqb_eq in E. subst. exact Hy.
  - intros H. exists x. split; [exact H|apply Nat.eqb_refl].
Qed.

Lemma rmc_notin c l : ~ In c l -> rmc c l = l.
Proof.
  induction l as [|y t IH]; cbn; [reflexivity|]. intros H.
  destruct (bytes_eqb_spec y c); [exfalso; apply H; left; assumption|].
  rewrite IH; [reflexivity|]. intro; apply H; right; assumption.
Qed.
Lemma In_rmc c y l : In y (rmc c l) -> In y l.
Proof. induction l as [|z t IH]; cbn; [tauto|]. destruct (bytes_eqb_spec z c); cbn; tauto. Qed.
Lemma In_rmc_neq c y l : y <> c -> In y l -> In y (rmc c l).
Proof.
  intros N. induction l as [|z t IH]; cbn; [tauto|].
  destruct (bytes_eqb_spec z c); cbn; intros [E|H]; subst; try tauto; try congruence.
Qed.
Lemma NoDup_rmc c l : NoDup l -> NoDup (rmc c l) /\ ~ In c (rmc c l).
Proof.
  induction 1 as [|y t Hy Ht IH]; cbn; [split; [constructor|tauto]|].
  destruct (bytes_eqb_spec y c).
  - subst. split; assumption.
  - destruct IH as [IH1 IH2]. split.
    + constructor; [|assumption]. intro H. apply Hy. eapply In_rmc; eassumption.
    + intros [E|H]; [congruence|tauto].
Qed.

Lemma rmn_notin x l : ~ In x l -> rmn x l = l.
Proof.
  induction l as [|y t IH]; cbn; [reflexivity|]. intros H.
  destruct (Nat.eqb_spec y x); [exfalso; apply H; left; assumption|].
  rewrite IH; [reflexivity|]. intro; apply H; right; assumption.
Qed.
Lemma In_rmn x y l : In y (rmn x l) -> In y l.
Proof. induction l as [|z t IH]; cbn; [tauto|]. destruct (Nat.eqb_spec z x); cbn; tauto. Qed.
Lemma In_rmn_neq x y l : y <> x -> In y l -> In y (rmn x l).
Proof.
  intros N. induction l as [|z t IH]; cbn; [tauto|].
  destruct (Nat.eqb_spec z x); cbn; intros [E|H]; subst; try tauto; try congruence.
Qed.
Lemma NoDup_rmn x l : NoDup l -> NoDup (rmn x l) /\ ~ In x (rmn x l).
Proof.
  induction 1 as [|y t Hy Ht IH]; cbn; [split; [constructor|tauto]|].
  destruct (Nat.eqb_spec y x).
  - subst. split; assumption.
  - destruct IH as [IH1 IH2]. split.
    + constructor; [|assumption]. intro H. apply Hy. eapply In_rmn; eassumption.
    + intros [E|H]; [congruence|tauto].
Qed.
Lemma length_rmn x l : In x l -> S (length (rmn x l)) = length l.
Proof.
  induction l as [|y t IH]; cbn; [tauto|].
  destruct (Nat.eqb_spec y x); [reflexivity|]. intros [E|H]; [congruence|]. cbn. rewrite IH; auto.
Qed.

(* pubs ignores everything but PUBLISH frames *)
Lemma pubs_cons_pub i c d l : pubs (FPub i c d :: l) = (i, c, d) :: pubs l.
Proof. reflexivity. Qed.
Lemma pubs_cons_err l : pubs (FError :: l) = pubs l.
Proof. reflexivity. Qed.
Lemma pubs_cons_info n r l : pubs (FInfo n r :: l) = pubs l.
Proof. reflexivity. Qed.
