(* AioGenEq.v — ClientSession.subscribe / unsubscribe / publish and _Protocol.on_publish of hpfeeds/asyncio/client.py as
   translated from the Python source on every run (AioGen.v, written by harness/pytrans6.py) are the model's do_sub / do_unsub /
   do_pub and the OP_PUBLISH branch of on_frame; the session run with the translated application calls plugged in is the model's
   run, so the C11 / C12 invariants hold of it.  No axioms. *)
From Coq Require Import ZArith List Bool.
From Coq Require Import Strings.Byte.
From HP Require Import Bytes Wire AioSession AioFacts AioGen.
Import ListNotations.
Open Scope Z_scope.

Section Eq.
Variable ident secret : bytes.

Theorem subscribe_src_eq : forall c s, ClientSession_subscribe ident secret c s = do_sub ident secret c s.
Proof.
  intros c s. unfold ClientSession_subscribe, do_sub. cbv zeta.
  destruct (memb c (wanted s)); [reflexivity|]. cbn [negb].
  destruct (cur (setwanted (c :: wanted s) s)); reflexivity.
Qed.

Theorem unsubscribe_src_eq : forall c s, ClientSession_unsubscribe ident secret c s = do_unsub ident secret c s.
Proof.
  intros c s. unfold ClientSession_unsubscribe, do_unsub. cbv zeta.
  destruct (memb c (wanted s)); [|reflexivity].
  destruct (cur (setwanted (rmb c (wanted s)) s)); reflexivity.
Qed.

Theorem publish_src_eq : forall c d s, ClientSession_publish ident secret c d s = do_pub ident secret c d s.
Proof. intros c d s. unfold ClientSession_publish, do_pub. cbv zeta. destruct (cur s); reflexivity. Qed.

(* a decoded OP_PUBLISH frame: BaseProtocol.message_received hands its fields to _Protocol.on_publish *)
Theorem on_publish_src_eq : forall k body i c d s, readpublish body = Some (i, c, d) ->
  on_frame ident secret k 3 body s = (Protocol_on_publish i c d s, false).
Proof. intros k body i c d s H. unfold on_frame. cbn [Z.eqb Pos.eqb]. rewrite H. reflexivity. Qed.

(* the session with the translated application calls plugged in *)
Definition astep_src (s : asess) (e : aev) : asess :=
  match e with
  | ASub c => ClientSession_subscribe ident secret c s
  | AUnsub c => ClientSession_unsubscribe ident secret c s
  | APub c d => ClientSession_publish ident secret c d s
  | _ => astep ident secret s e
  end.
Definition arun_src (es : list aev) : asess := fold_left astep_src es asess0.

Lemma astep_src_eq : forall s e, astep_src s e = astep ident secret s e.
Proof.
  intros s e. destruct e; cbn [astep_src astep];
    first [apply subscribe_src_eq | apply unsubscribe_src_eq | apply publish_src_eq | reflexivity].
Qed.
Theorem arun_src_eq : forall es, arun_src es = arun ident secret es.
Proof.
  intro es. unfold arun_src, arun. generalize asess0. induction es as [|e t IH]; intro s; [reflexivity|].
  cbn [fold_left]. rewrite astep_src_eq. apply IH.
Qed.

Theorem src_run_Q : forall es, Q (arun_src es).
Proof. intro es. rewrite arun_src_eq. apply run_Q. Qed.
Theorem src_run_A : (zlen ident <= 255)%Z -> forall es, A (arun_src es).
Proof. intros H es. rewrite arun_src_eq. apply run_A. exact H. Qed.
End Eq.

(* ---- _Protocol.connection_ready / connection_lost -------------------------------------------------------------- *)
Section Callbacks.
Variable ident secret : bytes.

(* an OP_INFO on connection k: ClientProtocol.on_info writes the OP_AUTH for the nonce (translated for C16 by pytrans2), then
   calls connection_ready - the translated one *)
Theorem connection_ready_src_eq : forall k body name rand a s,
  readinfo body = Some (name, rand) -> msgauth rand ident secret = Some a ->
  on_frame ident secret k 1 body s =
  Protocol_connection_ready ident secret k
    (modk k (fun c => mkac (cbuf c) (FAuth rand :: cout c) (cclosing c) (clost c) (caborted c)
                           (match cnonce c with None => Some rand | n => n end)) s).
Proof.
  intros k body name rand a s H1 H2. unfold on_frame. cbn [Z.eqb Pos.eqb]. rewrite H1, H2.
  unfold Protocol_connection_ready, set_result_connected, set_cur. cbv zeta. cbn [wanted].
  match goal with |- context [wc_done ?X] => destruct (wc_done X) eqn:W end; cbn [wanted]; try rewrite W; reflexivity.
Qed.

(* the transport reports the loss of connection k: the model's bookkeeping for the transport, then the translated
   connection_lost; an InvalidStateError from set_result counts as an escaped exception *)
Theorem connection_lost_src_eq : forall k s,
  do_lost k s =
  let c := getc s k in
  if (k <? length (conns s))%nat && negb (clost c) then
    match Protocol_connection_lost k (modk k (fun c => mkac (cbuf c) (cout c) true true (caborted c) (cnonce c)) s) with
    | (s', true) => bump s'
    | (s', false) => s'
    end
  else s.
Proof.
  intros k s. unfold do_lost. cbv zeta.
  destruct ((k <? length (conns s))%nat && negb (clost (getc s k))); [|reflexivity].
  unfold Protocol_connection_lost, set_result_closed, set_tr. cbv zeta. cbn [wcl_done pc cst ready].
  match goal with |- context [wcl_done ?X] => destruct (wcl_done X) eqn:W end; try rewrite W; reflexivity.
Qed.
End Callbacks.

(* ---- ClientSession.close(): the coroutine up to its first await (or its end) --------------------------------------- *)
Theorem close_start_src_eq : forall s, cst s = CQueued ->
  run_close s = ClientSession_close_start s.
Proof.
  intros s H. unfold run_close, ClientSession_close_start. rewrite H.
  unfold set_closing, set_cst, task_cancel_reconnect. cbv zeta. cbn [tr].
  destruct (tr s); reflexivity.
Qed.
