(* Sha1.v — executable SHA-1 (FIPS 180-4) over byte lists; compared with hashlib.sha1 on every run. *)
From Coq Require Import ZArith NArith List Bool.
From Coq Require Import Strings.Byte.
Import ListNotations.
Open Scope N_scope.

Definition w32 := 4294967296.
Definition add32 (a b : N) := (a + b) mod w32.
Definition rotl (n : N) (x : N) := ((N.shiftl x n) mod w32) + N.shiftr x (32 - n).
Definition not32 (x : N) := 4294967295 - x.

Definition bN (b : byte) : N := Byte.to_N b.
Definition Nb (n : N) : byte := match Byte.of_N (n mod 256) with Some b => b | None => x00 end.

Fixpoint words (l : list byte) : list N :=
  match l with
  | a :: b :: c :: d :: t => (bN a * 16777216 + bN b * 65536 + bN c * 256 + bN d) :: words t
  | _ => []
  end.
Fixpoint nlen {A} (l : list A) (acc : N) : N :=
  match l with [] => acc | _ :: t => nlen t (N.succ acc) end.

Definition be64 (n : N) : list byte :=
  map (fun k => Nb (N.shiftr n (8 * k))) [7;6;5;4;3;2;1;0].
Definition pad (m : list byte) : list byte :=
  let l := nlen m 0 in
  let k := (119 - (l mod 64)) mod 64 in
  m ++ x80 :: repeat x00 (N.to_nat k) ++ be64 (8 * l).

Fixpoint extend (n : nat) (w : list N) : list N :=
  match n with O => w | S n' =>
    match w with
    | w1 :: w2 :: w3 :: w4 :: w5 :: w6 :: w7 :: w8 :: w9 :: w10 :: w11 :: w12 :: w13 :: w14 :: w15 :: w16 :: _ =>
        extend n' (rotl 1 (N.lxor (N.lxor w3 w8) (N.lxor w14 w16)) :: w)
    | _ => w end end.

Definition f (t : N) (b c d : N) : N :=
  if t <? 20 then N.lor (N.land b c) (N.land (not32 b) d)
  else if t <? 40 then N.lxor b (N.lxor c d)
  else if t <? 60 then N.lor (N.lor (N.land b c) (N.land b d)) (N.land c d)
  else N.lxor b (N.lxor c d).
Definition kc (t : N) : N :=
  if t <? 20 then 1518500249 else if t <? 40 then 1859775393
  else if t <? 60 then 2400959708 else 3395469782.

Fixpoint rounds (ws : list N) (t : N) (a b c d e : N) : N*N*N*N*N :=
  match ws with [] => (a,b,c,d,e)
  | w :: ws' => rounds ws' (t+1)
      (add32 (add32 (add32 (add32 (rotl 5 a) (f t b c d)) e) (kc t)) w) a (rotl 30 b) c d
  end.

Definition block (h : N*N*N*N*N) (blk : list N) : N*N*N*N*N :=
  let '(h0,h1,h2,h3,h4) := h in
  let ws := rev (extend 64 (rev blk)) in
  let '(a,b,c,d,e) := rounds ws 0 h0 h1 h2 h3 h4 in
  (add32 h0 a, add32 h1 b, add32 h2 c, add32 h3 d, add32 h4 e).

Fixpoint blocks (fuel : nat) (h : N*N*N*N*N) (ws : list N) : N*N*N*N*N :=
  match fuel with O => h | S f' =>
    match ws with [] => h | _ => blocks f' (block h (firstn 16 ws)) (skipn 16 ws) end end.

Definition be32n (n : N) : list byte := map (fun k => Nb (N.shiftr n (8 * k))) [3;2;1;0].
Definition sha1 (m : list byte) : list byte :=
  let ws := words (pad m) in
  let '(a,b,c,d,e) :=
    blocks (S (length ws)) (1732584193, 4023233417, 2562383102, 271733878, 3285377520) ws in
  be32n a ++ be32n b ++ be32n c ++ be32n d ++ be32n e.

(* FIPS 180 test vector "abc" — checked by the kernel at build time *)
Example sha1_abc : sha1 [x61;x62;x63] =
  [xa9;x99;x3e;x36;x47;x06;x81;x6a;xba;x3e;x25;x71;x78;x50;xc2;x6c;x9c;xd0;xd8;x9d].
Proof. vm_compute. reflexivity. Qed.

Lemma be32n_length n : length (be32n n) = 4%nat. Proof. reflexivity. Qed.
Lemma sha1_length m : length (sha1 m) = 20%nat.
Proof.
  unfold sha1. destruct (blocks _ _ _) as [[[[a b] c] d] e].
  rewrite !app_length, !be32n_length. reflexivity.
Qed.
