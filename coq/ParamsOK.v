(* ParamsOK.v — the side conditions the wire theorems need, discharged for the constants that
   harness/genparams.py read from /repo/hpfeeds/protocol.py on this run.  If a change to the
   constants breaks one of them, this file stops compiling and the obligation is named below. *)
From Coq Require Import ZArith List Lia Bool.
From HP Require Import Bytes Params Wire.
Import ListNotations.
Open Scope Z_scope.

(* SIZES.get(opcode, MAXBUF) *)
Fixpoint zassoc (k : Z) (l : list (Z * Z)) (d : Z) : Z :=
  match l with [] => d | (k', v) :: t => if k =? k' then v else zassoc k t d end.
Definition limitP (op : Z) : Z := zassoc op sizes maxbuf.
Definition max_limit : Z := fold_left Z.max (map limitP [0;1;2;3;4;5]) 5.

(* obligation: the six opcodes are numbered 0..5 as the decoder's range test assumes *)
Lemma opcodes_ok :
  (op_error, op_info, op_auth, op_publish, op_subscribe, op_unsubscribe) = (0, 1, 2, 3, 4, 5).
Proof. vm_compute. reflexivity. Qed.

(* obligation: every per-opcode limit admits at least the bare header and fits a signed 32-bit length *)
Lemma limits_ok : forall op, 0 <= op <= 5 -> 5 <= limitP op < 2147483648 /\ limitP op <= max_limit.
Proof.
  intros op H.
  assert (C : op = 0 \/ op = 1 \/ op = 2 \/ op = 3 \/ op = 4 \/ op = 5) by lia.
  destruct C as [->|[->|[->|[->|[->| ->]]]]]; vm_compute; intuition discriminate.
Qed.

Lemma max_limit_ok : 5 <= max_limit.
Proof. vm_compute. discriminate. Qed.
