(* LegacyNonce.v — C11 for the blocking Client, tied to the bytes: the nonce answered on a connection is the nonce of the
   OP_INFO frame that the bytes received on THAT connection begin with. *)
From Coq Require Import ZArith List Bool Arith Lia.
From Coq Require Import Strings.Byte.
From HP Require Import Bytes Utf8 Sha1 Wire WireFacts Params ParamsOK WireStream LegacyClient LegacyFacts LegacyStream.
Import ListNotations.

Arguments next : simpl never.
Arguments readinfo : simpl never.
Arguments readpublish : simpl never.
Arguments readerror : simpl never.
Arguments Z.eqb : simpl never.

(* the nonce decoded on the current connection (ghost event LInfo), if any *)
Fixpoint conn_info (tr : list lev) : option bytes :=
  match tr with
  | [] => None
  | LConnected _ :: _ => None
  | LInfo _ r :: _ => Some r
  | _ :: t => conn_info t
  end.

Definition Nn (s : lstate) : Prop :=
  forall rand, conn_info (ltrace s) = Some rand ->
  exists nm body tail, lrx s = hdr 1 body ++ tail /\ readinfo body = Some (nm, rand).

(* extending the trace with events that are neither LInfo nor LConnected, and the received bytes at the end *)
Lemma Nn_keep s s' evs d :
  ltrace s' = evs ++ ltrace s -> lrx s' = lrx s ++ d ->
  Forall (fun e => match e with LInfo _ _ | LConnected _ => False | _ => True end) evs -> Nn s -> Nn s'.
Proof.
  intros Ht Hr He Hn rand Hc. rewrite Ht in Hc.
  assert (Hc' : conn_info (ltrace s) = Some rand).
  { clear Ht. induction He as [|e evs He _ IH]; [exact Hc|]. apply IH. destruct e; try contradiction; exact Hc. }
  destruct (Hn rand Hc') as (nm & body & tail & E & R). exists nm, body, (tail ++ d). rewrite Hr, E, <- app_assoc. auto.
Qed.

Ltac plain := repeat (constructor; [exact I|]); try constructor.

Lemma run_frames_trace_plain fuel : forall x, exists evs,
  ltrace (fst (run_frames fuel x)) = evs ++ ltrace x /\
  Forall (fun e => match e with LInfo _ _ | LConnected _ => False | _ => True end) evs /\
  lrx (fst (run_frames fuel x)) = lrx x.
Proof.
  induction fuel as [|f IH]; intros x; cbn [run_frames]; [exists []; auto|].
  destruct (next limitP (lbuf x)); try (exists []; auto; fail).
  destruct (Z.eqb op 3).
  - destruct (readpublish body) as [[[i c] dd]|]; [|exists []; auto].
    destruct (IH (deliver_msg i c dd (setbufl rest x))) as (evs & E & F & R). exists (evs ++ [LMsg i c dd]).
    rewrite E, R. cbn. rewrite <- app_assoc. split; [reflexivity|]. split; [|reflexivity].
    apply Forall_app. split; [exact F|plain].
  - destruct (Z.eqb op 0).
    + destruct (readerror body) as [em|]; [|exists []; auto].
      destruct (IH (ev (LErrMsg em) (setbufl rest x))) as (evs & E & F & R). exists (evs ++ [LErrMsg em]).
      rewrite E, R. cbn. rewrite <- app_assoc. split; [reflexivity|]. split; [|reflexivity].
      apply Forall_app. split; [exact F|plain].
    + destruct (IH (setbufl rest x)) as (evs & E & F & R). exists evs. rewrite E, R. auto.
Qed.

Theorem step_Nn s : G s -> Nn s -> Nn (lstep s).
Proof.
  intros Hg Hn. unfold lstep. destruct (lpcs s) eqn:Ep.
  - (* PTry *)
    destruct (lconn s) as [|[|] rest].
    + apply (Nn_keep s _ [LScriptEnd] []); [reflexivity|cbn; rewrite app_nil_r; reflexivity|plain|exact Hn].
    + intros rand Hc. cbn in Hc. discriminate.
    + apply (Nn_keep s _ [LSleep; LAttempt] []); [reflexivity|cbn; rewrite app_nil_r; reflexivity|plain|exact Hn].
  - (* PAuth: lrx = lbuf here (LegacyStream.Gx) *)
    assert (Hrx : lrx s = lbuf s).
    { destruct Hg as [[Hp _]|(F0 & F & _ & _ & H3 & _ & _ & H6)]; [congruence|].
      unfold Ppc in H6. rewrite Ep in H6. destruct H6 as [-> ->]. cbn in H3. exact H3. }
    destruct (lrecv s) as [|r rest].
    { apply (Nn_keep s _ [LScriptEnd] []); [reflexivity|cbn; rewrite app_nil_r; reflexivity|plain|exact Hn]. }
    destruct r as [d| | |];
      try (apply (Nn_keep s _ [LSleep] []); [reflexivity|cbn; rewrite app_nil_r; reflexivity|plain|exact Hn]).
    cbn [feedl lbuf].
    match goal with |- context [next limitP ?b] => destruct (next limitP b) as [|c|op body rest'] eqn:En end.
    + apply (Nn_keep s _ [LSleep] d); [reflexivity|reflexivity|plain|exact Hn].
    + apply (Nn_keep s _ [LSleep] d); [reflexivity|reflexivity|plain|exact Hn].
    + destruct (next_ready_inv limitP _ _ _ _ En) as (Hb & _ & _).
      destruct (Z.eqb op 1) eqn:E1.
      * apply Z.eqb_eq in E1. subst op.
        destruct (readinfo body) as [[nm rand]|] eqn:Er.
        -- unfold pop_send. cbn [ev setbufl feedl lsend].
           assert (Fin : forall s', lrx s' = lrx s ++ d ->
                     (exists evs, ltrace s' = evs ++ LInfo (lk s) rand :: ltrace s /\
                        Forall (fun e => match e with LInfo _ _ | LConnected _ => False | _ => True end) evs) -> Nn s').
           { intros s' Hr' (evs & Ht' & He') rand' Hc. rewrite Ht' in Hc.
             assert (rand' = rand).
             { clear Ht'. induction He' as [|e evs He _ IH]; [cbn in Hc; congruence|]. apply IH. destruct e; try contradiction; exact Hc. }
             subst rand'. exists nm, body, rest'. rewrite Hr', Hrx, Hb. auto. }
           destruct (lsend s) as [|[|] t].
           ++ apply Fin; [reflexivity|]. exists [LSentAuth (lk s) rand]. split; [reflexivity|plain].
           ++ apply Fin; [reflexivity|]. exists [LSentAuth (lk s) rand]. split; [reflexivity|plain].
           ++ apply Fin; [reflexivity|]. exists [LSleep; LSendFailed (lk s)]. split; [reflexivity|plain].
        -- apply (Nn_keep s _ [LCrash] d); [reflexivity|reflexivity|plain|exact Hn].
      * apply (Nn_keep s _ [LSleep] d); [reflexivity|reflexivity|plain|exact Hn].
  - (* PSubscribe *)
    destruct todo as [|c t].
    + apply (Nn_keep s _ [] []); [reflexivity|cbn; rewrite app_nil_r; reflexivity|plain|exact Hn].
    + unfold pop_send. destruct (lsend s) as [|[|] t'].
      * apply (Nn_keep s _ [LSentSub (lk s) c] []); [reflexivity|cbn; rewrite app_nil_r; reflexivity|plain|exact Hn].
      * apply (Nn_keep s _ [LSentSub (lk s) c] []); [reflexivity|cbn; rewrite app_nil_r; reflexivity|plain|exact Hn].
      * apply (Nn_keep s _ [LSendFailed (lk s)] []); [reflexivity|cbn; rewrite app_nil_r; reflexivity|plain|exact Hn].
  - (* PRecv *)
    destruct (lconnected s); cbn [negb].
    2:{ apply (Nn_keep s _ [] []); [reflexivity|cbn; rewrite app_nil_r; reflexivity|plain|exact Hn]. }
    destruct (lrecv s) as [|r rest].
    { apply (Nn_keep s _ [LScriptEnd] []); [reflexivity|cbn; rewrite app_nil_r; reflexivity|plain|exact Hn]. }
    destruct r as [d| | |].
    + match goal with |- context [run_frames ?f ?x] =>
        destruct (run_frames_trace_plain f x) as (evs & E & F & R); destruct (run_frames f x) as [s3 how] end.
      cbn [fst] in E, F, R. cbn [feedl ltrace lrx] in E, R.
      destruct how as [|[|how]]; [destruct (lstopped s3)| |].
      * apply (Nn_keep s _ evs d); [exact E|exact R|exact F|exact Hn].
      * apply (Nn_keep s _ evs d); [exact E|exact R|exact F|exact Hn].
      * apply (Nn_keep s _ (LDisconnected (lk s3) :: evs) d); [cbn; rewrite E; reflexivity|exact R|constructor; [exact I|exact F]|exact Hn].
      * apply (Nn_keep s _ (LCrash :: evs) d); [cbn; rewrite E; reflexivity|exact R|constructor; [exact I|exact F]|exact Hn].
    + destruct (lstopped s); apply (Nn_keep s _ [] []); try reflexivity; try (cbn; rewrite app_nil_r; reflexivity); try plain; exact Hn.
    + apply (Nn_keep s _ [LDisconnected (lk s)] []); [reflexivity|cbn; rewrite app_nil_r; reflexivity|plain|exact Hn].
    + apply (Nn_keep s _ [LDisconnected (lk s)] []); [reflexivity|cbn; rewrite app_nil_r; reflexivity|plain|exact Hn].
  - (* PAfterInner *)
    destruct (lstopped s).
    + apply (Nn_keep s _ [LReturn] []); [reflexivity|cbn; rewrite app_nil_r; reflexivity|plain|exact Hn].
    + destruct (lconnected s); apply (Nn_keep s _ [] []); try reflexivity; try (cbn; rewrite app_nil_r; reflexivity); try plain; exact Hn.
  - exact Hn.
Qed.

Lemma run_GN fuel : forall s, G s -> Nn s -> G (lrun fuel s) /\ Nn (lrun fuel s).
Proof.
  induction fuel as [|f IH]; intros s Hg Hn; [split; assumption|].
  destruct (lpcs s) eqn:E; try (rewrite lrun_S by congruence; apply IH; [apply step_G; exact Hg|apply step_Nn; assumption]).
  rewrite stopped_is_final by exact E. split; assumption.
Qed.

(* for every socket script: whenever the client has decoded an OP_INFO on the current connection (and so whenever it has
   answered it - LegacyFacts.first_frame_is_auth), the bytes received on THAT connection begin with an OP_INFO frame
   carrying exactly that nonce *)
Theorem legacy_nonce_is_this_connections conn recv send subs sa fuel :
  let s := lrun fuel (linit conn recv send subs sa) in
  forall rand, conn_info (ltrace s) = Some rand ->
  exists nm body tail, lrx s = hdr 1 body ++ tail /\ readinfo body = Some (nm, rand).
Proof.
  cbv zeta. apply run_GN.
  - right. exists [], []. cbn. repeat split; auto.
  - intros rand H. cbn in H. discriminate.
Qed.
