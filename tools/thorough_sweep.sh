#!/bin/sh
# tools/thorough_sweep.sh "<seeds>" "<ids>" [parallel] — thorough tier for several seeds (false-alarm hunt at scale)
cd "$(dirname "$0")/.." || exit 2
seeds=${1:-"2 3"}
ids=${2:-$(python3 -c "import json;print(' '.join(c['property_id'] for c in json.load(open('MANIFEST.json'))['checks']))")}
par=${3:-3}
./setup.sh >/dev/null 2>&1
for s in $seeds; do for p in $ids; do echo "$s $p"; done; done | \
  xargs -P "$par" -L 1 sh -c 'r=$(VERIF_SEED=$0 ./check $1 --tier thorough 2>/dev/null | grep -v "^KNOWN-FINDING" | tail -1); echo "seed=$0 $r"'
