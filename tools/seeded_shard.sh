#!/bin/sh
# tools/seeded_shard.sh <k> <n> — inside `vp run --with-repo`: build this snapshot of /verif, then run shard k of n of the
# seeded regression against the snapshot of the repository ($VP_RUN_REPO), leaving /repo alone
k=$1; n=$2
cd "$(dirname "$0")/.." || exit 2
export VERIF_REPO=${VP_RUN_REPO:-/repo}
./setup.sh >/dev/null 2>&1 || { echo "setup failed"; exit 2; }
ids=$(ls seeded | grep -E '^C[0-9][0-9][b-z]?$' | awk -v k=$k -v n=$n 'NR % n == k')
tools/seeded_all.sh $ids
