#!/bin/sh
# tools/thorough_all.sh [ids...] — run the thorough tier of every (or the given) check, one line per property
cd "$(dirname "$0")/.." || exit 2
ids=${*:-$(python3 -c "import json;print(' '.join(c['property_id'] for c in json.load(open('MANIFEST.json'))['checks']))")}
for p in $ids; do
  s=$(date +%s)
  r=$(./check $p --tier thorough 2>/dev/null | tail -1)
  echo "$p $(( $(date +%s) - s ))s $r"
done
