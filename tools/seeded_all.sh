#!/bin/sh
# tools/seeded_all.sh [ids...] — for each seeded change: apply to /repo, run its own check, record the verdict in
# seeded/<id>/meta.json ("result"), undo.  Refuses to run when the repository has local changes.  VERIF_REPO selects the
# repository (default /repo), so that the regression can run on a snapshot (vp run --with-repo) while /repo is in use.
cd "$(dirname "$0")/.." || exit 2
REPO=${VERIF_REPO:-/repo}
ids=${*:-$(ls seeded | grep -E '^C[0-9][0-9][b-z]?$')}
git -C $REPO diff --quiet || { echo "$REPO has local changes; refusing"; exit 2; }
for d in $ids; do
  p=$(echo $d | cut -c1-3)
  rm -f replay/$p-*.json
  git -C $REPO apply "$PWD/seeded/$d/patch.diff" || { echo "$d: patch does not apply"; continue; }
  line=$(./check $p 2>/dev/null | tail -1)
  git -C $REPO checkout -- .
  git checkout -q -- evidence/$p.json 2>/dev/null   # evidence written while a seeded change was applied is never kept
  python3 - "$p" "$line" "$d" <<'PY'
import json, glob, sys
p, line, d = sys.argv[1], sys.argv[2], sys.argv[3]
import os
mp = 'seeded/%s/meta.json' % d
if not os.path.exists(mp):
    a = json.load(open('seeded/%s/meta.agent.json' % d))
    m = dict(property=p, breaks=p, summary=a.get('summary'), needs=a.get('needs'), origin='written by an independent sub-agent given only the property text, a placement hint and a scratch worktree of /repo (round 2)')
else:
    m = json.load(open(mp))
what = ''
for f in glob.glob('replay/%s-*.json' % p):
    rj = json.load(open(f))
    what = '%s: %s' % (rj.get('kind'), (rj.get('what') or rj.get('correspondence') or rj.get('proof_obligation') or '')[:300])
m['checks_run'] = 'tools/seeded_all.sh %s' % d
m['result'] = ('%s: %s' % (p, line.split(' replay=')[0])) + ((' — ' + what) if what else '')
json.dump(m, open(mp, 'w'), indent=1, ensure_ascii=False)
print(d, '|', m['result'][:230])
PY
  rm -f replay/$p-*.json
done
