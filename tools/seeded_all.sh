#!/bin/sh
# tools/seeded_all.sh [ids...] — for each seeded change: apply to /repo, run its own check, record the verdict in
# seeded/<id>/meta.json ("result"), undo.  Refuses to run when /repo has local changes.
cd "$(dirname "$0")/.." || exit 2
ids=${*:-$(ls seeded | grep '^C[0-9][0-9]$')}
git -C /repo diff --quiet || { echo "/repo has local changes; refusing"; exit 2; }
for p in $ids; do
  rm -f replay/$p-*.json
  git -C /repo apply "$PWD/seeded/$p/patch.diff" || { echo "$p: patch does not apply"; continue; }
  line=$(./check $p 2>/dev/null | tail -1)
  git -C /repo checkout -- .
  python3 - "$p" "$line" <<'PY'
import json, glob, sys
p, line = sys.argv[1], sys.argv[2]
m = json.load(open('seeded/%s/meta.json' % p))
what = ''
for f in glob.glob('replay/%s-*.json' % p):
    d = json.load(open(f))
    what = '%s: %s' % (d.get('kind'), (d.get('what') or d.get('correspondence') or d.get('proof_obligation') or '')[:300])
m['checks_run'] = 'tools/seeded_all.sh %s' % p
m['result'] = ('%s: %s' % (p, line.split(' replay=')[0])) + ((' — ' + what) if what else '')
json.dump(m, open('seeded/%s/meta.json' % p, 'w'), indent=1, ensure_ascii=False)
print(p, '|', m['result'][:230])
PY
  rm -f replay/$p-*.json
done
