#!/bin/sh
# tools/quick_all.sh [seed] — every check's quick tier on /repo as it is (two at a time); prints one line per check
cd "$(dirname "$0")/.." || exit 2
seed=${1:-}
[ -n "$seed" ] && export VERIF_SEED=$seed
ls coq/Properties | sed 's/\.v$//' | xargs -P 2 -I{} sh -c './check {} --tier quick 2>/dev/null | grep -E "^(PASS|VIOLATION|KNOWN-FINDING)" | cut -c1-200'
