#!/bin/sh
# tools/sweep.sh "<seeds>" "<ids>" — run the quick checks for several seeds (false-alarm hunt); prints one line per run
seeds=${1:-"1 2 3 4 5"}
ids=${2:-$(python3 -c "import json;print(' '.join(c['property_id'] for c in json.load(open('MANIFEST.json'))['checks']))")}
./setup.sh >/dev/null 2>&1
for s in $seeds; do
  for p in $ids; do
    r=$(VERIF_SEED=$s ./check $p 2>/dev/null | tail -1)
    echo "seed=$s $r"
  done
done
