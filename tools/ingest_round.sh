#!/bin/sh
# tools/ingest_round.sh <round-dir> <suffix> <ids...> — copy a sub-agent's deliverables into seeded/<id><suffix>/ and confirm them
rd=$1; sfx=$2; shift 2
for p in "$@"; do
  d=seeded/$p$sfx
  mkdir -p $d
  cp $rd/$p.out/patch.diff $rd/$p.out/demo.py $d/ || continue
  cp $rd/$p.out/meta.agent.json $d/meta.agent.json 2>/dev/null
  sh seeded/confirm.sh $p$sfx
done
