#!/bin/sh
# MANIFEST.setup_cmd — build the Coq development from files on disk only (offline).
set -e
HERE=$(cd "$(dirname "$0")" && pwd)
cd "$HERE"
mkdir -p .work replay evidence
PYTHONPATH="${VERIF_REPO:-/repo}" /venv/bin/python harness/genparams.py
PYTHONPATH="${VERIF_REPO:-/repo}" /venv/bin/python harness/pytrans.py
PYTHONPATH="${VERIF_REPO:-/repo}" /venv/bin/python harness/pytrans2.py
PYTHONPATH="${VERIF_REPO:-/repo}" /venv/bin/python harness/pytrans3.py
PYTHONPATH="${VERIF_REPO:-/repo}" /venv/bin/python harness/pytrans4.py
PYTHONPATH="${VERIF_REPO:-/repo}" /venv/bin/python harness/pytrans5.py
PYTHONPATH="${VERIF_REPO:-/repo}" /venv/bin/python harness/pytrans6.py
PYTHONPATH="${VERIF_REPO:-/repo}" /venv/bin/python harness/pytrans7.py
cd coq
coq_makefile -f _CoqProject -o Makefile
timeout 3000 make -j16
echo "setup ok"
